//! No-op facade of the `tracing` crate: same macro / `Span` / `dispatcher` surface as used by
//! awslabs/shuttle, no behaviour. Logging is not the subject of any property, and the real
//! crate's dispatcher thread-local reaches `catch_unwind`, which Kani 0.68 cannot compile.
#![allow(unused)]

#[derive(Clone, Debug, Default, PartialEq, Eq, Hash)]
pub struct Span;

pub mod span {
    #[derive(Clone, Debug, PartialEq, Eq, Hash)]
    pub struct Id(pub u64);
    pub struct Entered<'a>(pub core::marker::PhantomData<&'a ()>);
    pub struct EnteredSpan;
    pub use super::Span;
}

pub use span::Id;

impl Span {
    pub const fn none() -> Span {
        Span
    }
    pub fn current() -> Span {
        Span
    }
    pub fn id(&self) -> Option<span::Id> {
        None
    }
    pub fn in_scope<F: FnOnce() -> T, T>(&self, f: F) -> T {
        f()
    }
    pub fn record<V>(&self, _field: &str, _value: V) -> &Self {
        self
    }
    pub fn enter(&self) -> span::Entered<'_> {
        span::Entered(core::marker::PhantomData)
    }
    pub fn entered(self) -> span::EnteredSpan {
        span::EnteredSpan
    }
    pub fn is_none(&self) -> bool {
        true
    }
    pub fn is_disabled(&self) -> bool {
        true
    }
}

pub mod field {
    #[derive(Clone, Copy, Debug)]
    pub struct Empty;
    pub fn debug<T>(t: T) -> T {
        t
    }
    pub fn display<T>(t: T) -> T {
        t
    }
}

#[derive(Clone, Copy, Debug, PartialEq, Eq, PartialOrd, Ord, Hash)]
pub struct Level(u8);
impl Level {
    pub const ERROR: Level = Level(1);
    pub const WARN: Level = Level(2);
    pub const INFO: Level = Level(3);
    pub const DEBUG: Level = Level(4);
    pub const TRACE: Level = Level(5);
}

pub mod dispatcher {
    #[derive(Clone, Debug, Default)]
    pub struct Dispatch;
    impl Dispatch {
        pub fn enter(&self, _id: &super::span::Id) {}
        pub fn exit(&self, _id: &super::span::Id) {}
        pub fn none() -> Self {
            Dispatch
        }
    }
    pub fn get_default<T, F: FnMut(&Dispatch) -> T>(mut f: F) -> T {
        f(&Dispatch)
    }
}
pub use dispatcher::Dispatch;

pub mod instrument {
    pub trait Instrument: Sized {
        fn instrument(self, _span: super::Span) -> Self {
            self
        }
        fn in_current_span(self) -> Self {
            self
        }
    }
    impl<T: Sized> Instrument for T {}
}
pub use instrument::Instrument;

#[macro_export]
macro_rules! trace { ($($t:tt)*) => {{}}; }
#[macro_export]
macro_rules! debug { ($($t:tt)*) => {{}}; }
#[macro_export]
macro_rules! info { ($($t:tt)*) => {{}}; }
#[macro_export]
macro_rules! warn { ($($t:tt)*) => {{}}; }
#[macro_export]
macro_rules! error { ($($t:tt)*) => {{}}; }
#[macro_export]
macro_rules! event { ($($t:tt)*) => {{}}; }
#[macro_export]
macro_rules! span { ($($t:tt)*) => { $crate::Span::none() }; }
#[macro_export]
macro_rules! trace_span { ($($t:tt)*) => { $crate::Span::none() }; }
#[macro_export]
macro_rules! debug_span { ($($t:tt)*) => { $crate::Span::none() }; }
#[macro_export]
macro_rules! info_span { ($($t:tt)*) => { $crate::Span::none() }; }
#[macro_export]
macro_rules! warn_span { ($($t:tt)*) => { $crate::Span::none() }; }
#[macro_export]
macro_rules! error_span { ($($t:tt)*) => { $crate::Span::none() }; }
