#!/bin/bash
# Run the quick (or given) tier of every claimed check, sequentially. Usage: ./run_all.sh [quick|thorough] [ids...]
tier=${1:-quick}; shift
ids="$@"; [ -z "$ids" ] && ids=$(python3 -c "import json; print(' '.join(c['property_id'] for c in json.load(open('/verif/MANIFEST.json'))['checks']))")
for id in $ids; do
  s=$(date +%s); ./check $id --tier $tier > /tmp/check-$id.out 2>&1; rc=$?
  echo "$id rc=$rc $(( $(date +%s) - s ))s $(grep -c VIOLATION /tmp/check-$id.out) violations"
done
