#!/bin/bash
# Offline set-up: nothing to download or build ahead of time. The checks build the harness crates
# against a scratch copy of /repo on every run (Kani compiles them in ~1 min). This only verifies
# that the tools the checks rely on are present.
set -e
export CARGO_NET_OFFLINE=true
command -v cargo-kani >/dev/null
command -v cbmc >/dev/null
command -v rsync >/dev/null
python3 -c "import json, re, subprocess" 
# engine M (C09): z3 bindings of the tooling venv and the nightly toolchain for the MIR dump
python3-vt -c "import z3" 
cargo +nightly --version >/dev/null
mkdir -p /var/tmp/shuttle-verif
echo "setup ok"
