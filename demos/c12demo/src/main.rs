use shuttle::scheduler::RoundRobinScheduler;
use shuttle::{Config, FailurePersistence, Runner};
use std::panic;

fn run(persist: FailurePersistence, fail: bool) {
    let mut config = Config::new();
    config.failure_persistence = persist;
    let r = panic::catch_unwind(|| {
        let runner = Runner::new(RoundRobinScheduler::new(1), config);
        runner.run(move || {
            let h = shuttle::thread::spawn(|| {});
            h.join().unwrap();
            if fail {
                panic!("BODY-FAILED");
            }
        });
    });
    eprintln!("== run finished, failed={}", r.is_err());
}

fn main() {
    let mode = std::env::args().nth(1).unwrap_or_default();
    match mode.as_str() {
        // scenario 1: an earlier run in the process had persistence disabled (and passed)
        "none_then_print" => {
            run(FailurePersistence::None, false);
            eprintln!("== second run: Print, fails");
            run(FailurePersistence::Print, true);
        }
        // scenario 2: two failing runs with Print whose failing schedules have the same length
        "print_print_same_len" => {
            run(FailurePersistence::Print, true);
            eprintln!("== second run: Print, fails");
            run(FailurePersistence::Print, true);
        }
        // control: a single failing run with Print
        _ => {
            eprintln!("== second run: Print, fails");
            run(FailurePersistence::Print, true);
        }
    }
}
