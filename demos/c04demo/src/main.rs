use shuttle::sync::RwLock;
fn main() {
    shuttle::check_dfs(
        || {
            let l = RwLock::new(0u8);
            let r1 = l.try_read().unwrap();
            assert!(l.try_read().is_err()); // re-entrant attempt is refused
            drop(r1);
            // all guards dropped: the lock must be free
            assert!(l.try_write().is_ok(), "failed re-entrant try_read leaked a permit");
        },
        None,
    );
    println!("OK");
}
