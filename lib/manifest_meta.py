"""Claim texts, not-applicable reasons and notes for MANIFEST.json (kept next to the registry)."""

ENGINES = [
    {
        "name": "kani-cbmc",
        "path": "/verif/kani/core",
        "serves_properties": ["C16"],
        "kind_free_text": "Kani 0.68 proof harnesses (kani::any inputs, kani::unwind bounds, unwinding assertions on) over the "
        "real shuttle crates compiled with feature verif-hooks; decided by CBMC 6.11 + CaDiCaL",
    }
]

NOTES = (
    "Every check copies /repo's working tree to /var/tmp/shuttle-verif/<id>/repo, builds the harness crate against it, runs one "
    "CBMC process per harness instance (memory and wall caps), requires every kani::cover! witness to be satisfied, replays any "
    "counterexample natively (Kani concrete playback, dev and release) and only then prints VIOLATION. Exit 2 = inconclusive "
    "(timeout, out of memory, vacuous harness, non-replaying counterexample), never reported as success. See DESIGN.md."
)

CLAIMS = {
    "C16": {
        "text": "Solver verdict over all inputs within the bounds: the varint kernels round-trip for every u64 and the decoder is "
        "total on every byte string <= 11 bytes; the schedule parser returns (never panics) on every byte vector of length <= 3 "
        "that hex decoding can produce. The genuine decoder panics found on the pinned tree were repaired (fix: commit) and the "
        "harnesses that expose them stay in the check.",
        "note": "Kani/CBMC model of the dev profile; `hex` crate and string front-end replaced by an environment stub returning "
        "arbitrary bytes; whole-schedule round trip with symbolic contents and byte vectors > 3 bytes are outside the bound "
        "(measured out of memory), as are symbolic strings.",
    },
}

_pending = "no check is registered for this property yet (build in progress; see DESIGN.md for the plan and measured obstacles)"
NOT_APPLICABLE = {pid: _pending for pid in [f"C{i:02d}" for i in range(1, 21)]}
