"""Claim texts, not-applicable reasons and notes for MANIFEST.json (kept next to the registry)."""

ENGINES = [
    {
        "name": "kani-cbmc",
        "path": "/verif/kani/core",
        "serves_properties": ["C01", "C05", "C08", "C09", "C10", "C13", "C15", "C16", "C17", "C20"],
        "kind_free_text": "Kani 0.68 proof harnesses (kani::any inputs, kani::unwind bounds, unwinding assertions on) over the "
        "real shuttle crates compiled with feature verif-hooks; decided by CBMC 6.11 + CaDiCaL. The same harnesses build "
        "natively against a stand-in for the kani crate (src/shim.rs, src/bin/native.rs) for harness validation and for "
        "replaying counterexamples against the real code before a violation is reported.",
    },
    {
        "name": "mirsym-z3",
        "path": "/verif/lib/mirsym.py",
        "serves_properties": ["C09"],
        "kind_free_text": "symbolic execution of rustc MIR with z3: the nightly compiler dumps the MIR of shuttle-schedulers from the scratch "
        "copy of /repo on every run (-Zunpretty=mir); lib/mirsym.py executes the functions of dfs.rs (and their closures) from that text: scalars "
        "are 64-bit bit-vectors / booleans, aggregates and references concrete objects, every undecided branch is a z3 feasibility query and a fork, "
        "assertions are z3 validity queries over the path condition; calls into std are hand-written models (lib/mir_builtins.py, listed as "
        "assumptions). Counterexamples are replayed natively against the real DfsScheduler (kani/core/src/bin/treereplay.rs) before a violation is reported.",
    },
]

NOTES = (
    "C09 is decided by a second engine (mirsym-z3): the nightly compiler's MIR dump of the scratch copy's shuttle-schedulers, regenerated on every run, "
    "is executed symbolically with z3 (lib/mirsym.py); code outside its MIR subset or std models makes the job inconclusive (exit 2), never a pass; "
    "its counterexamples (choice trees) are replayed natively against the real DfsScheduler before VIOLATION is printed. "
    "Every check copies /repo's working tree to /var/tmp/shuttle-verif/<id>/repo, builds the harness crate against it, runs one "
    "CBMC process per harness instance (memory and wall caps), requires the kani::cover! reachability witnesses to be satisfied, "
    "extracts any counterexample with Kani's concrete playback, replays it natively against the real code and only then prints "
    "VIOLATION. Exit 2 = inconclusive (timeout, out of memory, vacuous harness, non-replaying counterexample), never reported "
    "as success. When the solver gives no usable counterexample (playback mismatch, or memory/time/unwinding exhausted on a changed "
    "tree) the same harness is run natively on random inputs against the real code; a failure found that way is reported as the "
    "violation and marked `found_by` in the replay file; a pass is only ever the solver's verdict. Three harness families end the "
    "solver's path at the entry of a stage that cannot be encoded (bitvec, the task-table walk) after asserting what must hold "
    "there ('cuts', DESIGN.md 2.4); the stub is listed in the assumptions of their evidence. Properties whose code only runs inside a Shuttle execution (ExecutionState + primitives) are not applicable: "
    "the measured reasons are in DESIGN.md 2.1 and in each not_applicable entry."
)

_K = "bounded model checking of the compiled real code (Kani/CBMC, SAT): "

CLAIMS = {
    "C09": {
        "engine": "mirsym-z3",
        "text": "Solver verdict (z3 over the MIR of the real DfsScheduler, regenerated from /repo on every run) for the scheduler side of the property: "
        "(a) whole runs over every choice tree within the bound (depth <= 2 with <= 3 tasks offered per decision and any usize iteration bound, depth <= 3 "
        "with <= 2 tasks; thorough: depth 3 x 2 and depth 2 x 4 with any bound; branching may depend on all earlier choices; task ids symbolic): "
        "every maximal sequence of choices is run exactly once, the run then stops, with a bound exactly min(bound, #schedules) distinct schedules are run, "
        "only offered tasks are chosen, the scheduler never panics, and seed and draws are the same in every execution; (b) one call of next_task / "
        "new_execution from an ARBITRARY scheduler state satisfying the representation invariant (stack length <= 3 quick / 5-6 thorough, symbolic contents): "
        "result and post-state equal the lexicographic-successor specification of depth-first enumeration and re-establish the invariant - the inductive step that "
        "extends (a) to trees of any shape whose depth stays within the stack length; (c) Kani/CBMC: the real FixedDataSource rewinds to the same stream and "
        "seed in every execution. check_dfs, the Runner and the runtime that turns a program into a choice tree are not covered (engine-level).",
        "note": "std's Vec / slice / Option / iterator functions called by dfs.rs are hand-written models (lib/mir_builtins.py), the data source is an abstract "
        "rewindable stream in the MIR jobs (its real code is decided by the Kani harness); vector lengths are concrete per path (the executor forks on tree shape).",
        "technique": "symbolic execution of the real code's MIR (rustc nightly dump of /repo's current source) with z3: path feasibility and assertions are SMT "
        "queries over symbolic task ids, bounds and scheduler states; forks on tree shape; plus one Kani/CBMC harness for the data source",
    },
    "C01": {
        "text": "Solver verdict for every recorded schedule of 3 (quick) / 4 (thorough) steps over two tasks and random markers: the real ReplayScheduler returns exactly the recorded task at every decision and serves exactly the seeded data stream at every random marker, runs exactly one execution and reports the recorded seed; it never substitutes another task for a recorded one that is not offered; the seed RandomDataSource reports for each of its first three executions reproduces that execution's data stream; the nondeterminism checker accepts a replaying execution that repeats the recording one; offered tasks may be runnable or parked. Recording side, draws only: inside an execution state every shuttle::rand draw appends exactly one Random marker in position and is served by exactly one call of the scheduler. Together with C16 (string form) this is the replay side of the property plus the draw half of the recording side. Recording of task steps (ExecutionState::schedule) and whole-program record->replay equality are not covered (engine-level harnesses exceed the solver).",
        "note": "K-pure harnesses over ReplayScheduler / RandomDataSource / UncontrolledNondeterminismCheckScheduler with coroutine-less stub tasks; concrete data seeds (PCG's 128-bit multiply on symbolic seeds does not finish).",
        "technique": _K + 'all 27 (81) schedules in one query; symbolic missing task; symbolic inner answers',
    },
    "C05": {
        "text": "Solver verdict over every sequence of 4 (quick) / 6 (thorough) park / unpark / spurious wake-up / block operations "
        "on the real Task state machine: the unpark token is consumed by park, does not accumulate, is not consumed by a "
        "spurious wake-up, an unpark releases a parked task and never a task blocked on something else. Condvar, Barrier and "
        "Once are not covered.",
        "note": "only the park/unpark clause of the property; Task::park/unpark driven directly (no execution, no scheduling points).",
        "technique": _K + "symbolic operation sequences against a token model",
    },
    "C08": {
        "text": "Solver verdict for the transparent-wrapper clause: the metrics wrapper, the annotation wrapper (feature off), the portfolio stop-flag wrapper (flag down) and the nondeterminism checker while recording forward task list, current, is_yielding, random draws and new_execution unchanged and return the inner scheduler's answers, for all argument values in the bound; the portfolio wrapper with the flag up ends the execution / the run without consulting the inner scheduler. The runtime side of the contract is not covered (engine-level harness exceeds the solver).",
        "note": 'wrappers only; ExecutionState::schedule (task list contents, yielding flag, who runs next) is outside.',
        "technique": _K + 'symbolic arguments and inner answers through each wrapper',
    },
    "C10": {
        "text": "Solver verdict for the seed-determinism clause of the random scheduler: over every operation history in the bound "
        "(2 iterations, two operations per iteration; construction seeds 0x12345678, and in the thorough tier 0 and u64::MAX, each a data draw or a decision among 1..3 offered tasks), the "
        "first iteration reports the construction seed, the seed reported for any iteration, given to a fresh one-iteration scheduler, "
        "reproduces that iteration's decisions and data draws exactly, every choice is one of the offered tasks, and the iteration "
        "budget is exact. Uniformity, independence and eventual coverage are probabilistic statements and are not covered; the "
        "uniform random walk scheduler is not covered.",
        "note": "concrete construction seeds (PCG's 128-bit multiply on a symbolic seed finishes only up to 8 seed bits); rand's "
        "rejection loop is bounded by a passing unwinding assertion; environment variables stubbed unset.",
        "technique": _K + "symbolic operation histories and symbolic iteration index, concrete seeds",
    },
    "C13": {
        "text": 'Solver verdict for the iteration-budget clause on the round-robin scheduler (budgets 0..=3: exactly budget executions, then None forever), the replay scheduler (exactly one) and DFS on a choice-free body (None / Some(0..=3)); and for the step-count arithmetic: the bound comparison trips exactly when the steps (decisions plus draws) since the last reset reach the bound, for every usize bound, reset_step_count restarts the count at zero, and ExecutionState::schedule reacts to a reached bound as configured (FailAfter: step-bound error; ContinueAfter: execution marked Stopped, no error; below the bound or without one: on to the scheduling decision). How the error / the Stopped mark are turned into a panic message or a silent end, the Runner loop and the time limit are not covered.',
        "note": "the random scheduler's budget is asserted by the C10 check; PCT / URW budgets are outside; ExecutionState::schedule's reaction (FailAfter / ContinueAfter) is outside (engine-level harness exceeds the solver).",
        "technique": _K + 'symbolic budget, unrolled call sequence; symbolic reset point, schedule lengths and bound',
    },
    "C15": {
        "text": "Solver verdict over all u32 entries for clocks of the stated lengths: partial_cmp is the product order with the "
        "length rule and is antisymmetric, update is the pointwise maximum with zero extension and an upper bound of both "
        "operands, <= is transitive, the join is the least upper bound, increment advances exactly the own entry, extend "
        "zero-fills. The happens-before edges added by the primitives are not covered.",
        "note": "lattice operations only (feature vector-clocks on); clock lengths <= 3 quick / 4 thorough.",
        "technique": _K + "all entry values for fixed clock lengths",
    },
    "C16": {
        "text": 'Solver verdict over all inputs within the bounds: the varint kernels round-trip for every u64 with exact values and the decoder is total on every byte string <= 11 bytes; the schedule parser returns (never panics) on every byte vector of length <= 2 (quick) / 3 (thorough) that hex decoding can produce, rejects what the hex layer rejects, and accepts a header with no step data exactly when its task-id width (a varint of 1, 2, 5 / 9, 10 bytes, all payload bits symbolic) is 1..=64 and the announced length is 0; the encoder, up to the entry of step packing, allocates a bit vector that holds every step at the id width the largest task id needs (at least 1 bit) for every schedule of 1 / 3 steps with any usize ids. The genuine decoder panics found on the pinned tree were repaired (fix: 7283ba1) and the harnesses that expose them stay in the check.',
        "note": 'Kani/CBMC model of the dev profile; `hex` crate and string front-end replaced by an environment stub returning arbitrary bytes; whole-schedule round trip with symbolic contents (bitvec step packing) and fully symbolic byte vectors > 3 bytes are outside the bound (measured out of memory), as are symbolic strings.',
        "technique": _K + 'all u64 / all byte strings up to the bound / all width varints of fixed byte length',
    },
    "C17": {
        "text": 'Solver verdict over every sequence of 4 (quick) / 6 (thorough) operations {executor sleep after Pending, wake or abort request, finish, block inside the poll, release} on the real Task: a wake (or abort request) that arrives after the latest poll keeps (or makes) the task runnable, a pending task that was not woken sleeps, the wake flag is consumed exactly once. JoinHandle result delivery, cancellation semantics, block_on and the executor loop are not covered.',
        "note": 'only the no-lost-wake-up protocol at Task level (sleep_unless_woken / wake through Task::abort); result delivery clauses are outside.',
        "technique": _K + 'symbolic operation sequences against a wake-flag model',
    },
    "C20": {
        "text": "Solver verdict for every u64 probe: every constructor / conversion / clone / set operator of the deterministic HashMap "
        "and HashSet yields a collection whose hasher equals the fixed-key hasher (a constructor that falls back to "
        "RandomState::new is caught because that function is stubbed to different keys). A genuine defect found this way "
        "(set operators | & ^ - used randomly keyed hashers) was repaired (fix: 1d25076). The parking_lot, DashMap, rand and "
        "lazy_static clauses are not covered.",
        "note": "hasher equality on empty collections; identical iteration order across processes is argued from equal keys "
        "(hashbrown is deterministic given keys and history), not run.",
        "technique": _K + "all probe keys, every construction path",
    },
}

_ENGINE = (
    "its code only runs inside a Shuttle execution (ExecutionState + task table + primitives). Measured with Kani 0.68 / CBMC 6.11: "
    "symbolic execution is feasible after the hooks (Vec task table, no fn-pointer/dyn-drop paths), but CBMC's propositional "
    "post-processing (array theory over the heap-allocated task table, Arc<Waiter> queues, Vec<*const Task>) exhausts 16-50 GB or "
    "symbolic execution does not finish in 30 min even for one scheduling decision / three concrete semaphore operations "
    "(DESIGN.md 2.1); no other solver back end is usable (z3/cvc5 abort under Kani, no bitwuzla)"
)

NOT_APPLICABLE = {
    "C02": "needs every visible operation of every primitive executed inside an execution: " + _ENGINE
    + ". The one K-pure piece (exit_current_truncates_execution) has a harness (kani/core/src/c03.rs, validated natively) that does "
    "not finish either.",
    "C03": "the verdict is computed by ExecutionState::schedule + run_to_completion: " + _ENGINE
    + ". The harness (kani/core/src/c03.rs: one decision from every task table, oracle scheduler, spec predicate) exists, agrees with "
    "the real code on 10^5..10^6 native random runs, and is not registered because no instance was decided (30 min timeout alone).",
    "C04": "Mutex/RwLock/atomics operate through BatchSemaphore and ExecutionState: " + _ENGINE + ". Harnesses for the non-blocking "
    "paths exist (kani/core/src/c04.rs); natively they expose the re-entrant try_read permit leak (repaired, fix: 328323d), but their "
    "Kani runs end in non-replayable pointer failures inside VecDeque<(usize, VectorClock)> (inconclusive), so nothing is claimed.",
    "C06": "mpsc send/recv block through ExecutionState and wait queues of Arc-shared state: " + _ENGINE + ".",
    "C07": "spawn/join/scope/thread-locals need coroutines, catch_unwind (Kani 0.68 ICE) and the execution loop: " + _ENGINE + ".",
    "C11": "PctScheduler keeps priorities in a HashMap seeded with 16 entries and samples with rand (shuffle, sample, gen_range: "
    "unbounded rejection loops); hashbrown's SIMD group probing alone dominated every harness it was reachable from; the "
    "detection-probability bound is a probabilistic statement.",
    "C12": "failure reporting lives in the panic hook, catch_unwind/resume_unwind (Kani 0.68 internal compiler error on catch_unwind), "
    "stderr and the file system. The persistence-suppression defect predicted in DESIGN.md was confirmed and repaired with an "
    "ordinary two-run program against the real runtime (demos/c12demo, fix: commit), not with a solver, so no check is claimed.",
    "C14": "isolation between executions is ExecutionState::cleanup + continuation pool + per-execution storage: coroutines and "
    + _ENGINE + ".",
    "C18": "BatchSemaphore runs on ExecutionState: " + _ENGINE + ". Literal-skeleton instances without Acquire futures "
    "([try,try,release] ...) do finish (70-120 s), but their verdict is not stable: identical sources built under two different "
    "directory names gave SUCCESSFUL (6563 checks) and FAILED (6568 checks: Kani-internal sanity checks 'Unexpected return from "
    "Never function' in PermitsAvailable::acquire plus 34 pointer failures that cannot be extracted or replayed). A check whose "
    "verdict depends on the build path cannot be registered.",
    "C19": "the tokio replacements are layers over BatchSemaphore::acquire futures and ExecutionState: " + _ENGINE
    + "; watch uses catch_unwind (Kani ICE).",
}
