#!/bin/bash
# usage: lib/try_seed.sh <patch.diff> <check-id> [--only substr]
# Applies a seeded change to /repo, runs the check, reverts the change (git apply -R), prints the outcome.
set -u
patch=$1; id=$2; shift 2
cd /repo || exit 9
git apply --check "$patch" || { echo "PATCH DOES NOT APPLY"; exit 9; }
git apply "$patch"
cd /verif && VERIF_EVIDENCE_DIR=/var/tmp/shuttle-verif/seed-evidence ./check $id "$@" > /tmp/seed-$id.out 2>&1; rc=$?
cd /repo && git apply -R "$patch"
echo "rc=$rc"; grep -E "VIOLATION|KNOWN-FINDING|INCONCLUSIVE" /tmp/seed-$id.out | cut -c1-300
grep -E "^\[$id\] .*: (pass|fail|inconclusive)" /tmp/seed-$id.out | cut -c1-200
