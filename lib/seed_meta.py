#!/usr/bin/env python3
"""Write seeded/<id>/meta.json from the static descriptions below plus the recorded check output
(seeded/<id>/check_output.txt, produced by lib/eval_seeds.sh), then regenerate seeded/README.md."""
import json, os, re, subprocess

SEEDS = {
    "C01-1": dict(property="C01", what="RandomDataSource::reinitialize no longer re-seeds the generator for executions after the first (still reports a fresh seed)",
                  needs="a second or later execution of a multi-iteration run whose body draws from shuttle::rand, replayed from its recorded seed",
                  harness="c01_data_seed_reproduces_each_execution (added after the first C01 check, which only exercised the first execution, was seen to miss it)"),
    "C01-2": dict(property="C01 (and C15's replay-filter clause)", what="ReplayScheduler with a target clock skips a step's trailing Random markers without advancing the data source",
                  needs="set_target_clock, a skipped task step immediately followed by a Random marker, and a later draw by a scheduled task",
                  harness="c15_replay_target_clock_filter (extended with draws after the skipped step once this change was seen to pass the first version)",
                  checks=["C15", "C01"]),
    "C05-1": dict(property="C05", what="Task::unblock resets the whole ParkState (drops a pending unpark token)",
                  needs="unpark while not parked, then release from some other primitive, then park",
                  harness="c05_park_seq4 (op 'released by the primitive it was blocked on' added after the first version, which lacked that op, missed it)"),
    "C08-1": dict(property="C08", what="the yield flag is cleared in run_to_completion instead of schedule(): it stays set on the maybe_yield fast path",
                  needs="a yield request answered by re-selecting the yielding task, followed by another scheduling point of that task",
                  harness="none: the change is in ExecutionState::schedule / maybe_yield (engine-level, outside every registered harness)"),
    "C08-2": dict(property="C08 (and C01's checker clause)", what="the nondeterminism checker does not record an inner `None` answer while recording",
                  needs="an inner scheduler that stops an execution (returns None from next_task)",
                  harness="c01_nd_checker_record_then_replay (branch for an inner None extended to the replay execution after the first version skipped it)",
                  checks=["C08"]),
    "C13-1": dict(property="C13", what="is_step_bound_exceeded counts scheduling decisions (context_switches) instead of recorded steps: random draws no longer count",
                  needs="a step bound combined with shuttle::rand draws",
                  harness="c13_step_bound_arith"),
    "C13-2": dict(property="C13", what="DfsScheduler::new_execution checks the iteration budget only after the first execution",
                  needs="a DFS iteration budget of exactly Some(0)",
                  harness="c13_budget_dfs_no_choices (added for this change: DFS budgets were outside the first C13 check)"),
    "C15-1": dict(property="C15", what="VectorClock::partial_cmp treats missing entries as zeros instead of applying the length rule",
                  needs="clocks of different lengths whose longer tail is all zeros",
                  harness="c15_laws_3_1 / c15_laws_2_3"),
    "C15-2": dict(property="C15", what="VectorClock::extend appends at most 16 zeros",
                  needs="a gap of more than 16 between the clock's length and the new task id",
                  harness="c15_extend_far (added for this change: c15_extend only covered gaps <= 3)"),
    "C16-1": dict(property="C16", what="serialize_schedule writes tag bit and task id in one 65-bit store",
                  needs="a task id >= 2^63 (id width 64)",
                  harness="none: the step packing goes through the bitvec crate, which no harness can encode (encoder-only and round-trip harnesses with one symbolic id run out of memory / time); MISSED"),
    "C16-2": dict(property="C16", what="the varint reader accepts any tenth byte 0x00..=0x7f (bits above 63 silently dropped)",
                  needs="an over-long ten-byte varint in a header field",
                  harness="c16_varint_read_total_11_bytes (exact-value assertion added after the first version, which only bounded the bytes read, missed it)"),
    "C17-1": dict(property="C17", what="Task::wake ignores a wake that arrives while the task is Blocked",
                  needs="a future that blocks on a primitive inside its poll, a wake during that time, then Pending",
                  harness="c17_wake_seq4 (ops 'block inside the poll' / 'released' added after the first version missed it)"),
    "C05-2": dict(property="C05", what="Task::unpark drops the token when the target is Blocked on something other than park",
                  needs="unpark of a thread that is blocked in a condvar wait / join, which is then released and parks",
                  harness="c05_park_seq4"),
    "C17-2": dict(property="C17", what="Task::abort no longer marks the task as woken unless it is already asleep",
                  needs="an abort that lands while the future is in the middle of a poll that then returns Pending",
                  harness="c17_wake_seq4 (its wake operation goes through Task::abort)"),
    "C13-3": dict(property="C13", what="reset_step_count stores len()-1: after a reset the count restarts at 1, the bound trips one step early",
                  needs="a step bound, a reset_step_count call after at least one recorded step, and a stretch of exactly n steps after it",
                  harness="c13_reset_then_bound (added for this change: reset_step_count itself was outside every C13 harness, which "
                          "only set the reset point directly)"),
    "C16-3": dict(property="C16", what="the task-id width is truncated to u32 before validation: a width >= 2^32 whose low 32 bits are 1..=64 is accepted",
                  needs="a header whose width varint is at least 5 bytes long",
                  harness="c16_header_width_5 (added for this change: the malformed-input harnesses stop at 3-byte vectors, too short for a "
                          "5-byte varint; the new family fixes the varint's byte length and leaves all its payload bits symbolic)"),
    "C15-3": dict(property="C15", what="VectorClock::update ignores trailing zero entries of the other clock (result can be shorter than the operand)",
                  needs="an update from a longer clock whose extra entries end in zeros",
                  harness="c15_laws_2_3 / c15_laws_concrete_probes - but not by a solver verdict: with this change the formula of every laws/lub "
                          "instance exhausts the 12 GB cap (the result length becomes data-dependent, SmallVec::extend gets a symbolic size), "
                          "the first evaluation ended inconclusive (exit 2, no VIOLATION). The driver now follows a solver resource-out with a "
                          "native random search of the same harness against the real code; that search finds [_,_].update([_,_,0]) at once "
                          "and the failure is reported with `found_by` set accordingly in the replay file"),
    "C20-3": dict(property="C20", what="Default for HashSet builds the inner std set with Default::default() (randomly keyed)",
                  needs="a set obtained through Default (derive(Default), mem::take, or_default)",
                  harness="c20_set_constructors_concrete_probes"),
    "C10-1": dict(property="C10", what="RandomScheduler::new_execution no longer re-seeds the scheduling generator from the iteration's seed",
                  needs="the second or a later iteration, replayed alone from its reported seed (task choices differ, data draws do not)",
                  harness="c10_random_seed_reproduces_2"),
    "C08-3": dict(property="C08", what="the portfolio stop-flag wrapper answers random draws with 0 (without asking the inner scheduler) once the flag is up",
                  needs="a portfolio member that draws from shuttle::rand after another member has failed and before its next scheduling point",
                  harness="c08_portfolio_stop_wrapper"),
    "C16-4": dict(property="C16", what="the cut-short guard computes (announced_len + 7) / 8: an announced length >= 2^64-7 overflows (panic) instead of being rejected",
                  needs="a header whose length field is a ten-byte varint with a value of at least 2^64-7",
                  harness="c16_header_len_10 (the 9- and 10-byte instances for the length field were added when this change arrived: until "
                          "then only the width and seed fields had ten-byte instances, the length field stopped at five bytes)"),
    "C01-3": dict(property="C01", what="ReplayScheduler::next_task only matches a recorded task that is Runnable: a task offered while parked (spurious wake-up allowed) is refused",
                  needs="a recorded step that schedules a thread blocked in park without a token (a spurious wake-up chosen by the recording scheduler)",
                  harness="c01_replay_fidelity_3 (the offered tasks were always Runnable stubs; their state is now symbolic: runnable or parked)"),
    "C20-1": dict(property="C20", what="From<std HashMap/HashSet> wraps an empty std collection as is (keeps its random hasher)",
                  needs="conversion of an empty std collection that is filled afterwards",
                  harness="c20_map_constructors_concrete_probes / c20_set_constructors_concrete_probes (the symbolic-probe harnesses time out on a failing tree: inverting SipHash; concrete probes added)"),
    "C20-2": dict(property="C20", what="From<[(K,V);N]> for HashMap forwards to std's impl (RandomState::new())",
                  needs="construction through HashMap::from([...])",
                  harness="c20_map_constructors_concrete_probes"),
}


def main():
    rows = []
    for sid, d in sorted(SEEDS.items()):
        sdir = f"/verif/seeded/{sid}"
        if not os.path.isdir(sdir):
            continue
        out = ""
        p = os.path.join(sdir, "check_output.txt")
        if os.path.exists(p):
            out = open(p).read()
        viol = re.findall(r"VIOLATION property=(\S+) replay=(\S+)", out)
        rc = re.search(r"rc=(\d+)", out)
        if viol:
            result = "caught: " + ", ".join(f"VIOLATION property={a} ({os.path.basename(b)})" for a, b in viol)
        elif rc and rc.group(1) == "0":
            result = "MISSED (check exits 0)"
        elif rc:
            result = "not reported (check exits " + rc.group(1) + ": inconclusive) - see check_output.txt"
        else:
            result = "not evaluated yet"
        meta = {
            "id": sid,
            "property": d["property"],
            "what": d["what"],
            "needs": d["needs"],
            "harness": d["harness"],
            "origin": "independent sub-agent given only the property text and a scratch worktree; re-confirmed here: patch applies to /repo HEAD, "
            "workspace builds, demo.rs fails with the patch and passes without it (see agent_meta.txt for the agent's own log)",
            "how_to_run": f"git -C /repo apply /verif/seeded/{sid}/patch.diff; ./check {d.get('checks', [d['property'][:3]])[0]}; git -C /repo apply -R /verif/seeded/{sid}/patch.diff",
            "check_result": result,
        }
        json.dump(meta, open(os.path.join(sdir, "meta.json"), "w"), indent=1)
        rows.append(meta)
    subprocess.call(["python3", "/verif/lib/seeded_readme.py"])


if __name__ == "__main__":
    main()
