#!/usr/bin/env python3
"""Write seeded/<id>/meta.json from the static descriptions below plus the recorded check output
(seeded/<id>/check_output.txt, produced by lib/eval_seeds.sh), then regenerate seeded/README.md."""
import json, os, re, subprocess

SEEDS = {
    "C01-1": dict(property="C01", what="RandomDataSource::reinitialize no longer re-seeds the generator for executions after the first (still reports a fresh seed)",
                  needs="a second or later execution of a multi-iteration run whose body draws from shuttle::rand, replayed from its recorded seed",
                  harness="c01_data_seed_reproduces_each_execution (added after the first C01 check, which only exercised the first execution, was seen to miss it)"),
    "C01-2": dict(property="C01 (and C15's replay-filter clause)", what="ReplayScheduler with a target clock skips a step's trailing Random markers without advancing the data source",
                  needs="set_target_clock, a skipped task step immediately followed by a Random marker, and a later draw by a scheduled task",
                  harness="c15_replay_target_clock_filter (extended with draws after the skipped step once this change was seen to pass the first version)",
                  checks=["C15", "C01"]),
    "C05-1": dict(property="C05", what="Task::unblock resets the whole ParkState (drops a pending unpark token)",
                  needs="unpark while not parked, then release from some other primitive, then park",
                  harness="c05_park_seq4 (op 'released by the primitive it was blocked on' added after the first version, which lacked that op, missed it)"),
    "C08-1": dict(property="C08", what="the yield flag is cleared in run_to_completion instead of schedule(): it stays set on the maybe_yield fast path",
                  needs="a yield request answered by re-selecting the yielding task, followed by another scheduling point of that task",
                  harness="none: the change is in ExecutionState::schedule / maybe_yield (engine-level, outside every registered harness)"),
    "C08-2": dict(property="C08 (and C01's checker clause)", what="the nondeterminism checker does not record an inner `None` answer while recording",
                  needs="an inner scheduler that stops an execution (returns None from next_task)",
                  harness="c01_nd_checker_record_then_replay (branch for an inner None extended to the replay execution after the first version skipped it)",
                  checks=["C08"]),
    "C13-1": dict(property="C13", what="is_step_bound_exceeded counts scheduling decisions (context_switches) instead of recorded steps: random draws no longer count",
                  needs="a step bound combined with shuttle::rand draws",
                  harness="c13_step_bound_arith"),
    "C13-2": dict(property="C13", what="DfsScheduler::new_execution checks the iteration budget only after the first execution",
                  needs="a DFS iteration budget of exactly Some(0)",
                  harness="c13_budget_dfs_no_choices (added for this change: DFS budgets were outside the first C13 check)"),
    "C15-1": dict(property="C15", what="VectorClock::partial_cmp treats missing entries as zeros instead of applying the length rule",
                  needs="clocks of different lengths whose longer tail is all zeros",
                  harness="c15_laws_3_1 / c15_laws_2_3"),
    "C15-2": dict(property="C15", what="VectorClock::extend appends at most 16 zeros",
                  needs="a gap of more than 16 between the clock's length and the new task id",
                  harness="c15_extend_far (added for this change: c15_extend only covered gaps <= 3)"),
    "C16-1": dict(property="C16", what="serialize_schedule writes tag bit and task id in one 65-bit store",
                  needs="a task id >= 2^63 (id width 64)",
                  harness="none: the step packing goes through the bitvec crate, which no harness can encode (encoder-only and round-trip harnesses with one symbolic id run out of memory / time); MISSED"),
    "C16-2": dict(property="C16", what="the varint reader accepts any tenth byte 0x00..=0x7f (bits above 63 silently dropped)",
                  needs="an over-long ten-byte varint in a header field",
                  harness="c16_varint_read_total_11_bytes (exact-value assertion added after the first version, which only bounded the bytes read, missed it)"),
    "C17-1": dict(property="C17", what="Task::wake ignores a wake that arrives while the task is Blocked",
                  needs="a future that blocks on a primitive inside its poll, a wake during that time, then Pending",
                  harness="c17_wake_seq4 (ops 'block inside the poll' / 'released' added after the first version missed it)"),
    "C20-1": dict(property="C20", what="From<std HashMap/HashSet> wraps an empty std collection as is (keeps its random hasher)",
                  needs="conversion of an empty std collection that is filled afterwards",
                  harness="c20_map_constructors_concrete_probes / c20_set_constructors_concrete_probes (the symbolic-probe harnesses time out on a failing tree: inverting SipHash; concrete probes added)"),
    "C20-2": dict(property="C20", what="From<[(K,V);N]> for HashMap forwards to std's impl (RandomState::new())",
                  needs="construction through HashMap::from([...])",
                  harness="c20_map_constructors_concrete_probes"),
}


def main():
    rows = []
    for sid, d in sorted(SEEDS.items()):
        sdir = f"/verif/seeded/{sid}"
        if not os.path.isdir(sdir):
            continue
        out = ""
        p = os.path.join(sdir, "check_output.txt")
        if os.path.exists(p):
            out = open(p).read()
        viol = re.findall(r"VIOLATION property=(\S+) replay=(\S+)", out)
        rc = re.search(r"rc=(\d+)", out)
        if viol:
            result = "caught: " + ", ".join(f"VIOLATION property={a} ({os.path.basename(b)})" for a, b in viol)
        elif rc and rc.group(1) == "0":
            result = "MISSED (check exits 0)"
        elif rc:
            result = "not reported (check exits " + rc.group(1) + ": inconclusive) - see check_output.txt"
        else:
            result = "not evaluated yet"
        meta = {
            "id": sid,
            "property": d["property"],
            "what": d["what"],
            "needs": d["needs"],
            "harness": d["harness"],
            "origin": "independent sub-agent given only the property text and a scratch worktree; re-confirmed here: patch applies to /repo HEAD, "
            "workspace builds, demo.rs fails with the patch and passes without it (see agent_meta.txt for the agent's own log)",
            "how_to_run": f"git -C /repo apply /verif/seeded/{sid}/patch.diff; ./check {d.get('checks', [d['property'][:3]])[0]}; git -C /repo apply -R /verif/seeded/{sid}/patch.diff",
            "check_result": result,
        }
        json.dump(meta, open(os.path.join(sdir, "meta.json"), "w"), indent=1)
        rows.append(meta)
    subprocess.call(["python3", "/verif/lib/seeded_readme.py"])


if __name__ == "__main__":
    main()
