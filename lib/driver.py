"""Driver for the solver-based checks. See /verif/check for the contract."""
import argparse
import concurrent.futures as cf
import fcntl
import hashlib
import json
import os
import re
import resource
import shutil
import signal
import subprocess
import sys
import time

VERIF = "/verif"
REPO = "/repo"
WORK = os.environ.get("VERIF_WORK", "/var/tmp/shuttle-verif")
NCPU = os.cpu_count() or 4

sys.path.insert(0, os.path.join(VERIF, "lib"))
import registry  # noqa: E402

KANI_BASE = ["cargo", "kani", "-Z", "unstable-options", "--ignore-global-asm", "-Z", "stubbing"]


def log(*a):
    print(*a, file=sys.stderr, flush=True)


def sh(cmd, cwd=None, env=None, timeout=None, mem_kb=None, out=None):
    """Run a command; returns (rc, seconds, timed_out). Output goes to file `out`."""
    e = dict(os.environ)
    e.update({"CARGO_NET_OFFLINE": "true", "RUSTFLAGS": "--cap-lints=warn", "CARGO_TERM_COLOR": "never"})
    if env:
        e.update(env)

    def pre():
        os.setsid()
        if mem_kb:
            resource.setrlimit(resource.RLIMIT_AS, (mem_kb * 1024, mem_kb * 1024))

    t0 = time.time()
    f = open(out, "wb") if out else subprocess.DEVNULL
    p = subprocess.Popen(cmd, cwd=cwd, env=e, stdout=f, stderr=subprocess.STDOUT, preexec_fn=pre)
    timed_out = False
    try:
        rc = p.wait(timeout=timeout)
    except subprocess.TimeoutExpired:
        timed_out = True
        try:
            os.killpg(p.pid, signal.SIGKILL)
        except ProcessLookupError:
            pass
        rc = p.wait()
    if out:
        f.close()
    return rc, time.time() - t0, timed_out


# ------------------------------------------------------------------------------------------------
# scratch copy of the repository and harness crates


def sync_repo(dst):
    os.makedirs(dst, exist_ok=True)
    subprocess.check_call(
        ["rsync", "-a", "--delete", "--exclude", "/target", "--exclude", ".git", REPO + "/", dst + "/"]
    )


def render_crate(crate, wdir, features):
    """Copy /verif/kani/<crate> to <wdir>/h-<crate>-<fkey> with Cargo.toml rendered."""
    fkey = "-".join(sorted(features)) or "nofeat"
    dst = os.path.join(wdir, f"h-{crate}-{fkey}")
    src = os.path.join(VERIF, "kani", crate)
    os.makedirs(dst, exist_ok=True)
    subprocess.check_call(["rsync", "-a", "--delete", src + "/src/", dst + "/src/"])
    tmpl = open(os.path.join(src, "Cargo.toml.in")).read()
    rendered = tmpl.replace("@REPO@", os.path.join(wdir, "repo")).replace("@VERIF@", VERIF)
    ct = os.path.join(dst, "Cargo.toml")
    if not os.path.exists(ct) or open(ct).read() != rendered:
        open(ct, "w").write(rendered)
    lock = os.path.join(dst, "Cargo.lock")
    if not os.path.exists(lock):
        shutil.copy(os.path.join(wdir, "repo", "Cargo.lock"), lock)
        # the tracing facade replaces the registry crate: let cargo re-resolve that one entry offline
        sh(["cargo", "update", "-p", "tracing", "--offline"], cwd=dst, out=os.path.join(dst, "update.log"))
    return dst


# ------------------------------------------------------------------------------------------------
# Kani jobs

CHECK_RE = re.compile(r"^Check \d+: (\S+)\n\t - Status: (\w+)\n\t - Description: \"(.*)\"\n\t - Location: (.*)$", re.M)


def parse_kani_log(path):
    txt = open(path, errors="replace").read()
    res = {
        "verdict": None,
        "failed": [],
        "covers": [],
        "time_s": None,
        "n_checks": None,
        "unwind_fail": False,
        "oom": False,
        "ice": False,
    }
    m = re.search(r"^VERIFICATION:- (\w+)", txt, re.M)
    if m:
        res["verdict"] = m.group(1)
    m = re.search(r"^Verification Time: ([0-9.]+)s", txt, re.M)
    if m:
        res["time_s"] = float(m.group(1))
    m = re.search(r"\*\* (\d+) of (\d+) failed", txt)
    if m:
        res["n_checks"] = int(m.group(2))
    for name, status, desc, loc in CHECK_RE.findall(txt):
        if ".cover." in name or name.endswith(".cover"):
            res["covers"].append({"desc": desc, "status": status, "loc": loc.strip()})
        elif status not in ("SUCCESS", "UNREACHABLE"):
            res["failed"].append({"check": name, "status": status, "desc": desc, "loc": loc.strip()})
            if "unwinding assertion" in desc:
                res["unwind_fail"] = True
    if re.search(r"std::bad_alloc|Out of memory|out of memory|memory exhausted|Status: ERROR", txt):
        res["oom"] = True
    if "internal compiler error" in txt or "Kani unexpectedly panicked" in txt:
        res["ice"] = True
    m = re.search(r"Runtime Symex: ([0-9.e+-]+)s", txt)
    if m:
        res["symex_s"] = float(m.group(1))
    solver = re.findall(r"Runtime Solver: ([0-9.e+-]+)s", txt)
    if solver:
        res["solver_s"] = sum(float(x) for x in solver)
    m = re.search(r"Generated (\d+) VCC\(s\), (\d+) remaining after simplification", txt)
    if m:
        res["vccs"] = int(m.group(2))
    m = re.search(r"(\d+) variables, (\d+) clauses", txt)
    if m:
        res["sat_vars"], res["sat_clauses"] = int(m.group(1)), int(m.group(2))
    return res


def run_kani_job(job, wdir, tier, base_target):
    """job: dict(crate, harness, features, timeout, mem_gb, ...). Returns result dict."""
    hdir = job["_hdir"]
    name = job["harness"]
    slot = os.path.join(wdir, "slots", f"{job['crate']}-{name}")
    os.makedirs(os.path.dirname(slot), exist_ok=True)
    if not os.path.isdir(slot) and base_target and os.path.isdir(base_target):
        subprocess.call(["cp", "-a", base_target, slot])
    logf = os.path.join(wdir, "logs", f"{name}.log")
    os.makedirs(os.path.dirname(logf), exist_ok=True)
    timeout = job.get("timeout", 600 if tier == "quick" else 2700)
    mem_kb = int(job.get("mem_gb", 12) * 1024 * 1024)
    cmd = KANI_BASE + ["--harness", fq_name(job), "--exact", "--target-dir", slot] + feature_args(job) + job.get("kani_args", [])
    rc, secs, timed_out = sh(cmd, cwd=hdir, timeout=timeout, mem_kb=mem_kb, out=logf)
    res = parse_kani_log(logf)
    res.update({"harness": name, "rc": rc, "wall_s": round(secs, 1), "timed_out": timed_out, "log": logf})
    # free the per-job target dir right away (disk)
    shutil.rmtree(slot, ignore_errors=True)
    return res


def fq_name(job):
    """Fully qualified harness name `module::function` (what `--exact` matches)."""
    return job.get("module", job["harness"].split("_")[0]) + "::" + job["harness"]


def feature_args(job):
    return ["--features", "vc"] if "vector-clocks" in job.get("features", []) else []


def classify(res, job):
    """-> 'pass' | 'fail' | 'inconclusive' with reason."""
    if res["timed_out"]:
        return "inconclusive", f"timeout after {res['wall_s']}s"
    if res["ice"]:
        return "inconclusive", "Kani internal error"
    if res["verdict"] == "SUCCESSFUL":
        # vacuity: every cover must be satisfied unless listed as optional
        optional = set(job.get("optional_covers", []))
        bad = [c for c in res["covers"] if c["status"] != "SATISFIED" and c["desc"] not in optional]
        if bad:
            return "inconclusive", "vacuous: reachability witness not satisfied: " + "; ".join(c["desc"] for c in bad)
        return "pass", ""
    if res["verdict"] == "FAILED":
        if res["oom"] and not res["failed"]:
            return "inconclusive", "out of memory"
        real = [f for f in res["failed"] if "unwinding assertion" not in f["desc"]]
        if not real and res["unwind_fail"]:
            return "inconclusive", "unwinding bound too small"
        unsupported = [f for f in real if "is not currently supported by Kani" in f["desc"] or f["status"] == "UNDETERMINED"]
        hard = [f for f in real if f not in unsupported]
        if hard:
            return "fail", "; ".join(sorted(set(f["desc"] for f in hard)))[:600]
        if unsupported:
            return "inconclusive", "unsupported construct reached: " + unsupported[0]["desc"][:200]
        return "inconclusive", "FAILED without a failed check (see log)"
    if res["oom"]:
        return "inconclusive", "out of memory"
    return "inconclusive", f"no verdict (rc={res['rc']})"


# ------------------------------------------------------------------------------------------------
# concrete playback (native replay of a counterexample against the real code)


def playback(job, wdir, res, pid):
    """Re-run the failing harness with concrete playback, write the generated unit test into the
    scratch harness crate, run it natively (dev + release). Returns (reproduced: bool|None, path)."""
    hdir = job["_hdir"]
    name = job["harness"]
    slot = os.path.join(wdir, "slots", f"pb-{name}")
    logf = os.path.join(wdir, "logs", f"{name}.playback.log")
    cmd = KANI_BASE + [
        "-Z", "concrete-playback", "--concrete-playback=print",
        "--harness", fq_name(job), "--exact", "--target-dir", slot,
    ] + feature_args(job) + job.get("kani_args", [])
    sh(cmd, cwd=hdir, timeout=job.get("timeout", 900) + 300, mem_kb=int(job.get("mem_gb", 12) * 1024 * 1024), out=logf)
    txt = open(logf, errors="replace").read()
    m = re.search(r"```\n(.*?)```", txt, re.S)
    os.makedirs(os.path.join(VERIF, "replays", pid), exist_ok=True)
    rpath = os.path.join(VERIF, "replays", pid, f"{name}.json")
    rec = {
        "property": pid,
        "harness": name,
        "crate": job["crate"],
        "features": job.get("features", []),
        "failed_checks": res["failed"][:10],
        "kani_concrete_playback_test": m.group(1) if m else None,
        "native_replay": None,
    }
    reproduced = None
    if m:
        test_src = m.group(1)
        tm = re.search(r"fn (kani_concrete_playback_\w+)", test_src)
        tname = tm.group(1) if tm else None
        # append the unit test to the module that defines the harness
        modfile = os.path.join(hdir, "src", job.get("module", name.split("_")[0]) + ".rs")
        if not os.path.exists(modfile):
            modfile = os.path.join(hdir, "src", "lib.rs")
        with open(modfile, "a") as f:
            f.write("\n" + test_src + "\n")
        outs = {}
        for prof in ([], ["--release"]):
            plog = os.path.join(wdir, "logs", f"{name}.native{'-rel' if prof else ''}.log")
            rc, _, to = sh(
                ["cargo", "kani", "playback", "-Z", "concrete-playback"] + prof + ["--", tname],
                cwd=hdir, timeout=900, out=plog,
            )
            ptxt = open(plog, errors="replace").read()
            failed = bool(re.search(r"test result: FAILED|panicked at", ptxt))
            ran = bool(re.search(r"running 1 test", ptxt))
            outs["release" if prof else "dev"] = {"ran": ran, "failed": failed, "tail": ptxt[-1500:]}
        rec["native_replay"] = outs
        rans = [o for o in outs.values() if o["ran"]]
        if rans:
            reproduced = any(o["failed"] for o in rans)
    shutil.rmtree(slot, ignore_errors=True)
    rec["reproduced"] = reproduced
    json.dump(rec, open(rpath, "w"), indent=1)
    return reproduced, rpath


# ------------------------------------------------------------------------------------------------


def load_known_findings():
    p = os.path.join(VERIF, "known_findings.json")
    if os.path.exists(p):
        return json.load(open(p))
    return {"findings": [], "fixed": []}


def main(argv):
    ap = argparse.ArgumentParser()
    ap.add_argument("pid")
    ap.add_argument("--tier", default=os.environ.get("VERIF_TIER", "quick"), choices=["quick", "thorough"])
    ap.add_argument("--replay")
    ap.add_argument("--only")
    ap.add_argument("--jobs", type=int, default=int(os.environ.get("VERIF_JOBS", "0")))
    ap.add_argument("--keep", action="store_true", help="keep the scratch directory (debugging)")
    args = ap.parse_args(argv)
    pid = args.pid
    seed = int(os.environ.get("VERIF_SEED", "0") or 0)
    t0 = time.time()

    if pid not in registry.PROPERTIES:
        log(f"unknown or unclaimed property {pid}")
        return 2
    prop = registry.PROPERTIES[pid]

    if args.replay:
        rec = json.load(open(args.replay))
        print(json.dumps({k: rec.get(k) for k in ("property", "harness", "failed_checks", "reproduced")}, indent=1))
        args.only = rec["harness"]

    wdir = os.path.join(WORK, pid)
    os.makedirs(wdir, exist_ok=True)
    lockf = open(os.path.join(WORK, f".lock-{pid}"), "w")
    fcntl.flock(lockf, fcntl.LOCK_EX)
    shutil.rmtree(os.path.join(wdir, "logs"), ignore_errors=True)
    shutil.rmtree(os.path.join(wdir, "slots"), ignore_errors=True)

    sync_repo(os.path.join(wdir, "repo"))

    jobs = [dict(j) for j in prop["jobs"] if tier_ok(j, args.tier)]
    if args.only:
        jobs = [j for j in jobs if args.only in j.get("harness", j.get("name", ""))]
    kani_jobs = [j for j in jobs if j["kind"] == "kani"]
    smt_jobs = [j for j in jobs if j["kind"] == "smt"]

    results = []
    violations = []
    inconclusive = []
    known_hits = []
    kf = load_known_findings()

    # ---- SMT jobs (fast; run first, in-process)
    for j in smt_jobs:
        import smt_engine

        r = smt_engine.run_job(j, wdir, args.tier)
        results.append(r)
        if r["status"] == "fail":
            violations.append((j, r))
        elif r["status"] != "pass":
            inconclusive.append((j, r))

    # ---- Kani jobs: group by (crate, features) -> one base build each, then parallel jobs
    groups = {}
    for j in kani_jobs:
        key = (j["crate"], tuple(sorted(j.get("features", []))))
        groups.setdefault(key, []).append(j)
    njobs = args.jobs or max(1, min(6, NCPU // 2))
    for (crate, feats), js in groups.items():
        hdir = render_crate(crate, wdir, feats)
        base_target = os.path.join(wdir, f"target-{crate}-{'-'.join(feats) or 'nofeat'}")
        blog = os.path.join(wdir, "logs", f"build-{crate}.log")
        os.makedirs(os.path.dirname(blog), exist_ok=True)
        rc, secs, to = sh(
            KANI_BASE + ["--only-codegen", "--target-dir", base_target] + feature_args({"features": list(feats)}),
            cwd=hdir, timeout=1800, out=blog
        )
        if rc != 0:
            tail = open(blog, errors="replace").read()[-3000:]
            log(f"[{pid}] harness crate {crate} does not build against the current tree:\n{tail}")
            for j in js:
                r = {"harness": j["harness"], "status": "inconclusive", "reason": "harness crate failed to compile against /repo"}
                results.append(r)
                inconclusive.append((j, r))
            continue
        for j in js:
            j["_hdir"] = hdir
        with cf.ThreadPoolExecutor(max_workers=njobs) as ex:
            futs = {ex.submit(run_kani_job, j, wdir, args.tier, base_target): j for j in js}
            for fut in cf.as_completed(futs):
                j = futs[fut]
                res = fut.result()
                status, reason = classify(res, j)
                res["status"], res["reason"] = status, reason
                log(f"[{pid}] {j['harness']}: {status} {reason} ({res['wall_s']}s, verif {res.get('time_s')}s)")
                results.append(res)
                if status == "fail":
                    violations.append((j, res))
                elif status == "inconclusive":
                    inconclusive.append((j, res))
        if not args.keep:
            shutil.rmtree(base_target, ignore_errors=True)

    # ---- violations: replay natively before reporting
    exit_code = 0
    reported = 0
    for j, res in violations:
        if j["kind"] == "smt":
            rpath = res.get("replay")
            reproduced = res.get("reproduced")
        else:
            reproduced, rpath = playback(j, wdir, res, pid)
        # known findings are matched by (property, harness family, failed-check description)
        kmatch = None
        for f in kf.get("findings", []):
            if f["property"] == pid and re.search(f["match"], res.get("reason", "")) and (
                "harness" not in f or re.search(f["harness"], j.get("harness", j.get("name", "")))
            ):
                kmatch = f
        if kmatch:
            print(f"KNOWN-FINDING: property={pid} {kmatch['what']}", flush=True)
            known_hits.append(kmatch["what"])
            res["status"] = "known-finding"
            continue
        if reproduced is False:
            log(f"[{pid}] counterexample of {j.get('harness')} does NOT reproduce natively: encoding disagreement")
            res["status"] = "inconclusive"
            res["reason"] = "counterexample does not replay natively: " + res.get("reason", "")
            inconclusive.append((j, res))
            continue
        print(f"VIOLATION property={pid} replay={rpath}", flush=True)
        log(f"[{pid}]   {res.get('reason')}")
        reported += 1
    if reported:
        exit_code = 1
    elif inconclusive:
        exit_code = 2
        for j, r in inconclusive:
            log(f"[{pid}] INCONCLUSIVE {j.get('harness', j.get('name'))}: {r.get('reason')}")

    write_evidence(pid, prop, args.tier, seed, results, reported, known_hits, inconclusive, time.time() - t0)
    if not args.keep:
        shutil.rmtree(os.path.join(wdir, "repo"), ignore_errors=True)
        shutil.rmtree(os.path.join(wdir, "slots"), ignore_errors=True)
        for d in os.listdir(wdir):
            if d.startswith("h-") or d.startswith("target-"):
                shutil.rmtree(os.path.join(wdir, d), ignore_errors=True)
    return exit_code


def tier_ok(job, tier):
    t = job.get("tier", "quick")
    return t == "quick" or tier == "thorough"


def write_evidence(pid, prop, tier, seed, results, violations, known_hits, inconclusive, wall):
    evals = 0
    nontrivial = 0
    samples = []
    functions = set(prop.get("functions_encoded", []))
    queries = []
    solver_s = 0.0
    symex_s = 0.0
    for r in results:
        q = 1 + len(r.get("covers", []))
        evals += q
        sat_covers = [c for c in r.get("covers", []) if c["status"] == "SATISFIED"]
        if r.get("status") in ("pass", "known-finding", "fail") and (not r.get("covers") or len(sat_covers) == len(r["covers"])):
            nontrivial += 1
        solver_s += r.get("solver_s", 0) or 0
        symex_s += r.get("symex_s", 0) or 0
        queries.append(
            {
                "harness": r.get("harness", r.get("name")),
                "status": r.get("status"),
                "reason": r.get("reason", ""),
                "verification_time_s": r.get("time_s"),
                "wall_s": r.get("wall_s"),
                "checks": r.get("n_checks"),
                "vccs": r.get("vccs"),
                "sat_vars": r.get("sat_vars"),
                "sat_clauses": r.get("sat_clauses"),
                "covers_satisfied": [c["desc"] for c in sat_covers],
                "engine": r.get("engine", "kani/cbmc"),
            }
        )
        for s in r.get("samples", []):
            samples.append(s)
    if not samples:
        samples = [
            {"harness": q["harness"], "bounds": prop.get("bounds", {}).get(q["harness"], prop.get("bounds_text", "")),
             "witnesses": q["covers_satisfied"][:6]}
            for q in queries[:8]
        ]
    ev = {
        "property_id": pid,
        "tier": tier,
        "seed": seed,
        "level": prop.get("level", "model_checking"),
        "coverage": {
            "evaluations": evals,
            "distinct_nontrivial": nontrivial,
            "rule": "one solver query per harness instance plus one per reachability witness (kani::cover!); "
            "an instance is counted non-trivial only if it was decided (not timed out / out of memory) and "
            "all its reachability witnesses were satisfied. " + prop.get("rule", ""),
            "samples": samples,
            "exhaustive": False,
            "functions_encoded": sorted(functions),
            "bounds": prop.get("bounds_text", ""),
            "outside_bounds": prop.get("outside", ""),
            "queries": queries,
            "solver_time_s": round(solver_s, 2),
            "symex_time_s": round(symex_s, 2),
            "inconclusive": [
                {"harness": j.get("harness", j.get("name")), "reason": r.get("reason")} for j, r in inconclusive
            ],
            "known_findings_hit": known_hits,
            "explanation": prop.get("explanation", ""),
        },
        "assumptions": prop.get("assumptions", registry.STANDARD_ASSUMPTIONS),
        "wall_s": round(wall, 1),
        "violations": violations,
    }
    os.makedirs(os.path.join(VERIF, "evidence"), exist_ok=True)
    json.dump(ev, open(os.path.join(VERIF, "evidence", f"{pid}.json"), "w"), indent=1)
