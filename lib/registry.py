"""Registry of harness instances per property.

Each job is a dict:
  kind      'kani' | 'smt'
  crate     harness crate under /verif/kani/<crate>         (kani)
  harness   proof harness name                              (kani)
  features  extra cargo features of shuttle-engine          (kani)  e.g. ['vector-clocks']
  tier      'quick' (run in both tiers) | 'thorough'
  timeout   wall cap in seconds, mem_gb address-space cap
"""

STANDARD_ASSUMPTIONS = [
    "Kani 0.68 / CBMC 6.11 (cadical) model of rustc MIR for the dev profile; panic=abort (no unwinding)",
    "crate `tracing` replaced by a no-op facade (/verif/stubs/tracing): logging is not observed",
    "std::hash::RandomState::new stubbed to fixed keys; Backtrace::force_capture -> disabled; "
    "shuttle_engine::{backtrace_enabled,silence_warnings,seed_from_env} -> false/true/identity (no env vars); "
    "alloc::fmt::format -> empty String; std::thread::panicking -> false",
    "cargo feature `verif-hooks`: tasks have no coroutine (PooledContinuation stub, null yielder); "
    "thread::switch() calls a harness callback instead of suspending; the three engine thread-locals with "
    "destructors are process statics; ExecutionState.tasks is a Vec<Task> instead of SmallVec<[Task;16]> "
    "(SmallVec's inline/heap union forces CBMC into byte-level encoding of the whole task table)",
    "harness-owned objects are leaked with mem::forget at the end (drop glue is not part of the claim "
    "unless a harness drops explicitly)",
    "shapes (number of tasks, steps, slots, container lengths) are concrete per harness instance; "
    "contents, choices, operands and schedules are symbolic",
]


def K(harness, crate="core", tier="quick", features=(), timeout=None, mem_gb=12, **kw):
    d = {"kind": "kani", "crate": crate, "harness": harness, "tier": tier, "features": list(features), "mem_gb": mem_gb}
    if timeout:
        d["timeout"] = timeout
    d.update(kw)
    return d


PROPERTIES = {}

PROPERTIES["C18"] = {
    "level": "model_checking",
    "jobs": [
        K("c18_try_try_rel", timeout=900, mem_gb=14, shared_covers=True),
        K("c18_try_close_try", timeout=900, mem_gb=14, shared_covers=True),
        K("c18_rel_try_try", tier="thorough", timeout=900, mem_gb=14, shared_covers=True),
        K("c18_try_rel_sleep_try", tier="thorough", timeout=1200, mem_gb=14, shared_covers=True),
    ],
    "functions_encoded": [
        "shuttle_engine::future::batch_semaphore::{BatchSemaphore::{new_with_signature, try_acquire, release, close, "
        "available_permits, reblock_if_unfair}, BatchSemaphoreState::{acquire_permits, unblock_waiters_from_front}, "
        "PermitsAvailable::{acquire, release}}",
        "shuttle_engine::runtime::execution::ExecutionState::{with, me, update_clock, increment_clock}; Task::sleep_unless_woken",
    ],
    "bounds_text": "2 tasks; control skeletons (which task performs which operation) literal: [try,try,release], "
    "[try,close,try] (quick) + [release,try,try], [try,release,sleep,try] (thorough); initial permits 0..=3, every batch size "
    "1..=3 per operation and the fairness mode symbolic; after every operation: result, available permits, queue length and "
    "closed flag equal the reference counting model; unwind 5",
    "outside": "everything involving an Acquire future - queued waiters, FIFO order, grants, cancellation, wake-ups (the heart of "
    "the property): with a queued Acquire CBMC's propositional post-processing exhausts 16 GB even for the fully concrete "
    "skeleton [acquire, poll, release] (harnesses c18_new_poll_rel*, validated natively only); symbolic operation kinds; "
    "3+ tasks; upgrade()",
    "rule": "",
}


PROPERTIES["C16"] = {
    "level": "model_checking",
    "jobs": [
        K("c16_varint_roundtrip_all_u64", timeout=300),
        K("c16_varint_read_total_11_bytes", timeout=300),
        K("c16_malformed_bin0", timeout=300),
        K("c16_malformed_bin1", timeout=300),
        K("c16_malformed_bin2", timeout=300),
        K("c16_malformed_bin3", tier="thorough", timeout=900),
        K("c16_nonhex_rejected", timeout=300),
        K("c16_header_width_1", timeout=600, shared_covers=True),
        K("c16_header_width_2", timeout=600, shared_covers=True),
        K("c16_header_width_5", timeout=900, shared_covers=True),
        K("c16_header_len_5", timeout=900, shared_covers=True),
        K("c16_header_seed_5", timeout=900, shared_covers=True),
        K("c16_header_total_bin4", timeout=900),
        K("c16_encoder_width_1", timeout=900),
        K("c16_encoder_width_3", timeout=900),
        K("c16_header_width_10", timeout=900, shared_covers=True),
        K("c16_header_len_10", timeout=900, shared_covers=True),
        K("c16_header_seed_10", timeout=900, shared_covers=True),
        K("c16_header_width_9", tier="thorough", timeout=1200, shared_covers=True),
        K("c16_header_len_9", tier="thorough", timeout=1200, shared_covers=True),
        K("c16_header_seed_9", tier="thorough", timeout=1200, shared_covers=True),
        K("c16_header_total_bin6", tier="thorough", timeout=1800),
        K("c16_header_total_bin12", tier="thorough", timeout=2400),
    ],
    "functions_encoded": [
        "shuttle_engine::scheduler::serialization::varint::{space_needed, WriteVarInt::write_u64_varint, "
        "ReadVarInt::read_u64_varint, read_u8}",
        "shuttle_engine::scheduler::serialization::deserialize_schedule (whitespace filter on the empty string, "
        "version check, three header varints, width/length validation; the step loop over bitvec::BitSlice only in the <=3-byte harnesses, where it is not reached)",
        "shuttle_engine::scheduler::serialization::serialize_schedule (largest task id, id width, allocation size; up to BitVec::repeat)",
    ],
    "bounds_text": "varint kernels: every u64 (encode, length, decode, exact consumption), every byte string of "
    "length <= 11 (decoder total, <= 10 bytes read); decoder binary stage: every byte vector of length 0..=3 "
    "after hex decoding (any version byte, any truncated or malformed header); header validation: magic byte, a task-id "
    "header stage up to the entry of step decoding (BitSlice::from_slice stubbed to 'assert the "
    "header is valid, end the path'): one header field (width / announced length / seed) a varint of exactly 1, 2, 5 or 10 bytes "
    "(quick; 9 thorough) with every payload bit symbolic, the other fields single bytes: a header gets through exactly when its "
    "width is 1..=64 and its varints are well-formed; every byte vector of length 4 (quick) / 6, 12 (thorough): rejected or "
    "reaches step decoding, never a panic; encoder up to the entry of step packing (BitVec::repeat stubbed the same way): for "
    "every schedule of 1 / 3 steps, each a random marker or a task step with any usize id, the bit vector the encoder allocates "
    "can hold every step at the id width the largest id needs (at least 1 bit); unwind 6-14",
    "outside": "symbolic *strings* (str::chars/String::from_iter/hex on symbolic bytes exhaust 12 GB for 2 "
    "characters): the third-party `hex` layer is an environment stub returning arbitrary bytes; everything behind the "
    "entry of step decoding (the `bitvec` crate: step decoding, the announced-length-versus-data check, the encoder's step "
    "packing, whole-schedule round trips) exhausts 12 GB even for a header with no data and is cut off by a stub in the "
    "header harnesses; the header bytes the encoder writes (behind the packing stage)",
    "rule": "",
    "assumptions": STANDARD_ASSUMPTIONS
    + ["hex::encode / hex::decode replaced by an environment stub: decode returns the harness's arbitrary byte "
       "vector (or an error), i.e. the claim is over every byte vector hex decoding could produce",
       "c16_header_* only: bitvec::slice::BitSlice::from_slice replaced by a stub that asserts the harness's reference verdict "
       "on the header and ends the path (kani::assume(false)): nothing behind it is part of those harnesses' claim",
       "c16_encoder_width_* only: bitvec::vec::BitVec::repeat (the allocation made by `bitvec![..]`) replaced by a stub that "
       "asserts the requested length against the harness's reference and ends the path"],
}


VC = ("vector-clocks",)

PROPERTIES["C15"] = {
    "level": "model_checking",
    "jobs": [
        K("c15_laws_concrete_probes", features=VC, shared_covers=True, timeout=600),
        K("c15_laws_3_3", features=VC, shared_covers=True, timeout=600),
        K("c15_laws_2_3", features=VC, shared_covers=True, timeout=600),
        K("c15_laws_3_1", features=VC, shared_covers=True, timeout=600),
        K("c15_lub_2", features=VC, timeout=600),
        K("c15_extend", features=VC, timeout=600),
        K("c15_replay_target_clock_filter", features=VC, timeout=900),
        K("c15_extend_far", features=VC, timeout=900),
        K("c15_laws_4_4", features=VC, shared_covers=True, tier="thorough", timeout=1800),
        K("c15_lub_3", features=VC, tier="thorough", timeout=1800),
    ],
    "functions_encoded": [
        "shuttle_engine::runtime::task::clock::VectorClock::{from, extend, increment, update, get, partial_cmp, clone}",
    ],
    "bounds_text": "clock lengths (3,3), (2,3), (3,1) and three clocks of length 2 (quick); (4,4) and three clocks of "
    "length 3 (thorough); every u32 value in every entry; unwind 6-8",
    "outside": "clocks longer than 4 entries; the happens-before edges added by the primitives (update_clock / "
    "increment_clock call sites) are not covered by this check",
    "rule": "",
}


def M(cls, args, tier="quick", witnesses=(), timeout=900, **kw):
    """SMT job: MIR of shuttle-schedulers (nightly dump of the scratch copy) executed symbolically with z3."""
    import importlib.util as _u
    name = {
        "WholeRun": lambda a: f"c09_mir_dfs_trees_d{a[0]}_w{a[1]}_{'bound' if a[2] else 'nobound'}",
        "Step": lambda a: f"c09_mir_dfs_step_L{a[0]}_s{a[1]}_n{a[2]}",
        "NewExecution": lambda a: f"c09_mir_dfs_new_execution_L{a[0]}",
        "NoRandomData": lambda a: "c09_mir_dfs_refuses_draws_when_disallowed",
    }[cls](args)
    d = {"kind": "smt", "crate": "shuttle-schedulers", "name": name, "harness": name, "harness_class": cls, "args": list(args),
         "tier": tier, "witnesses": list(witnesses), "timeout": timeout, "property": "C09"}
    d.update(kw)
    return d


_W_TREE = ["tree with at least 3 schedules", "tree with a single schedule", "the last sibling at a level has more than one child"]
_C09_STEPS = [(L, s, n) for L in range(0, 4) for s in range(0, L + 1) for n in (1, 2, 3)]
PROPERTIES["C09"] = {
    "level": "model_checking",
    "jobs": [
        M("WholeRun", [2, 2, False], witnesses=_W_TREE),
        M("WholeRun", [2, 3, True], witnesses=_W_TREE + ["three tasks offered at one decision", "the iteration bound cuts the enumeration short"]),
        M("WholeRun", [3, 2, False], witnesses=_W_TREE),
        M("NoRandomData", [], witnesses=["draw refused"]),
    ]
    + [M("Step", list(a)) for a in _C09_STEPS]
    + [M("NewExecution", [L], witnesses=["an execution is started", "the run ends (bound reached or tree exhausted)"]) for L in range(0, 4)]
    + [K("c09_fixed_data_source_rewinds", module="kp", timeout=900), K("c09_fixed_data_source_long_executions", module="kp", timeout=900)]
    + [
        M("WholeRun", [3, 2, True], tier="thorough", witnesses=_W_TREE, timeout=1800),
        M("WholeRun", [2, 4, True], tier="thorough", witnesses=_W_TREE, timeout=1800),
    ]
    + [M("Step", [L, s, n], tier="thorough") for L in (4, 5) for s in range(0, L + 1) for n in (1, 2, 3, 4)]
    + [M("NewExecution", [L], tier="thorough", witnesses=["an execution is started", "the run ends (bound reached or tree exhausted)"]) for L in (4, 5, 6)],
    "functions_encoded": [
        "shuttle_schedulers::dfs::DfsScheduler::{new, new_execution, next_task, next_u64, has_more_choices} and their closures: "
        "MIR dumped by the nightly compiler from the scratch copy of /repo on every run, executed symbolically (lib/mirsym.py, z3)",
        "shuttle_engine::scheduler::data::fixed::FixedDataSource::{initialize, reinitialize, next_u64} and RandomDataSource (Kani/CBMC, "
        "harness c09_fixed_data_source_rewinds)",
    ],
    "bounds_text": "whole runs: every choice tree of depth <= 2 with <= 2 (no bound) or <= 3 (any usize iteration bound) tasks offered per decision, "
    "depth <= 3 with <= 2 tasks (no bound); thorough: depth 3 x 2 tasks and depth 2 x 4 tasks with any usize bound (depth 4 x 2 = 33 673 shapes did not finish in 30 min and is not registered); the number "
    "of tasks offered at a decision may depend on every earlier choice; task ids at every decision are symbolic (any strictly ascending usize values), the yielding "
    "flag symbolic. Asserted: no schedule twice, no schedule skipped, the run ends after the last schedule, with a bound exactly min(bound, #schedules) "
    "executions, every chosen task was offered, no panic, same seed and same draws (one before the first decision, one after the last) in every execution. "
    "One step from an ARBITRARY state satisfying the representation invariant (stack of stored choices of length L <= 3 (5 thorough) with symbolic contents, depth s <= L, "
    "n <= 3 (4) offered tasks with symbolic ids): next_task's result and post-state equal the lexicographic-successor specification and re-establish the invariant; "
    "new_execution from an arbitrary state (L <= 3 (6), any iteration count < 2^63, any bound) stops exactly when the bound is reached or, after the "
    "first iteration, no level has a sibling left, and otherwise counts the iteration, restarts at depth 0, rewinds the data stream and keeps the stack. "
    "FixedDataSource (Kani): seeds 0x12345678 (the one DFS uses) and 0, four executions with 2/1/3/2 draws: same reported seed, same stream, and the seed re-creates the stream.",
    "outside": "deeper / wider trees than stated for the whole-run claim (the one-step claim is what extends to them, by induction over the run, for stacks up to the stated length); "
    "the check_dfs entry point and the Runner / ExecutionState around the scheduler (coroutines; engine-level code, DESIGN.md 2.1), i.e. that the runtime offers the same "
    "tasks for the same prefix of choices; step bounds only in the sense that a tree truncated at depth n is a tree; std's Vec / slice / Option functions are hand-written "
    "models, not std's code (list under assumptions)",
    "rule": "for the MIR jobs: evaluations = z3 queries (path feasibility + assertions), one case = one explored path (tree shape x bound outcome); a whole-run instance "
    "counts once per reachability witness reached; distinct tree shapes explored are reported per query as `distinct_shapes`.",
    "assumptions": ["MIR jobs: rustc nightly MIR (-Zunpretty=mir, debug-assertions off, overflow-checks on) of shuttle-schedulers in the scratch copy; "
                    "symbolic executor lib/mirsym.py: scalars are z3 bit-vectors/booleans, aggregates and references are concrete objects, "
                    "the executor forks (z3 feasibility query) on every undecided branch; lengths of vectors and slices are concrete on every path"],
    "explanation": "",
}
try:
    import sys as _sys
    _sys.path.insert(0, "/verif/lib")
    PROPERTIES["C09"]["assumptions"] += __import__("mir_builtins_assumptions").ASSUMPTIONS + STANDARD_ASSUMPTIONS[:3]
except Exception:
    pass


_DECISION_FUNCS = [
    "shuttle_engine::runtime::execution::{Execution::run_to_completion, ExecutionState::{schedule, advance_to_next_task, "
    "is_step_bound_exceeded, finish_task, request_yield, exit_current_truncates_execution}, CurrentSchedule::{init, push_task, len, get_schedule}}",
    "shuttle_engine::runtime::task::Task::{block, sleep, unblock, finish, detach, runnable, blocked, can_spuriously_wakeup, finished}",
]
_DECISION_BOUNDS = (
    "one scheduling decision (plus the decision that follows it) of the real run_to_completion loop from every task table "
    "with N tasks, each Runnable / Blocked / Blocked-spurious / Sleeping / Finished x attached / detached, built with the real "
    "transition functions; any task as `current`; yield request symbolic; step bound mode {None, FailAfter(n), ContinueAfter(n)}, "
    "n in 0..=4, recorded schedule length 2, reset point 0..=2; scheduler answer symbolic (any offered task, or None); unwind 5"
)
_DECISION_OUTSIDE = (
    "more than 3 tasks; sequences of more than two decisions; the coroutine switch itself (task steps are a callback); "
    "the panic raised from the verdict and its message (format_for_deadlock) are not executed"
)

def D(h, tier="quick", **kw):
    return K(h, module="c03", tier=tier, timeout=1500, mem_gb=16, shared_covers=True, **kw)


_D1 = ["c03_d1_c0_f0", "c03_d1_c0_f1"]
_D2 = ["c03_d2_c0_f00", "c03_d2_c1_f00", "c03_d2_c0_f01", "c03_d2_c0_f10", "c03_d2_c0_f11", "c03_d2_c1_f01", "c03_d2_c1_f10"]
_D3 = ["c03_d3_c0_f000", "c03_d3_c1_f000", "c03_d3_c2_f001", "c03_d3_c0_f010", "c03_d3_c1_f100"]
_SKEL = (" One instance per control skeleton (which task ran last, which tasks are finished): literal, so that every index "
         "into the task table is a constant for the solver; N=2: all 7 skeletons with an unfinished... see registry; N=3: 5 of 24.")

PROPERTIES["C03"] = {
    "level": "model_checking",
    "jobs": [D(h) for h in _D1 + _D2[:2]] + [D(h, "thorough") for h in _D2[2:] + _D3],
    "functions_encoded": _DECISION_FUNCS,
    "bounds_text": "N = 1, 2 (quick: 4 skeletons), all N<=2 skeletons and 5 N=3 skeletons (thorough): " + _DECISION_BOUNDS + _SKEL,
    "outside": _DECISION_OUTSIDE + "; verdicts of whole programs over the primitives (only the decision function is covered)",
    "rule": "",
}
PROPERTIES["C08"] = {
    "level": "model_checking",
    "jobs": [D(h) for h in _D2[:3]] + [D(h, "thorough") for h in _D2[3:] + _D3],
    "functions_encoded": _DECISION_FUNCS,
    "bounds_text": "N = 2 (quick: 3 skeletons; thorough: all 7 plus 5 N=3 skeletons): " + _DECISION_BOUNDS + _SKEL,
    "outside": _DECISION_OUTSIDE + "; wrapper schedulers (metrics, annotation, portfolio stop, nondeterminism check)",
    "rule": "",
}
PROPERTIES["C13"] = {
    "level": "model_checking",
    "jobs": [D(h) for h in _D1 + _D2[:1]] + [D(h, "thorough") for h in _D2[1:]],
    "functions_encoded": _DECISION_FUNCS,
    "bounds_text": "N = 1, 2: " + _DECISION_BOUNDS + _SKEL,
    "outside": _DECISION_OUTSIDE + "; iteration budgets of the schedulers, Runner::run's loop and return value, max_time",
    "rule": "",
}


# ---- K-pure families (no ExecutionState): these are the harnesses that fit comfortably ----------------

PROPERTIES["C01"] = {
    "level": "model_checking",
    "jobs": [
        K("c01_replay_fidelity_3", module="kp", timeout=900),
        K("c13_budget_replay_once", module="kp", timeout=600),
        K("c01_data_seed_reproduces_each_execution", module="kp", timeout=900),
        K("c01_nd_checker_record_then_replay", module="kp", timeout=900),
        K("c01_replay_refuses_missing_task", module="kp", timeout=900),
        K("c01_recording_of_draws_0_1", module="kp", timeout=900),
        K("c01_recording_of_draws_2_2", module="kp", timeout=900),
        K("c01_recording_of_draws_1_0", module="kp", timeout=900),
        K("c01_replay_fidelity_4", module="kp", tier="thorough", timeout=2400),
    ],
    "functions_encoded": [
        "shuttle_schedulers::replay::ReplayScheduler::{new_from_schedule, new_execution, next_task, next_u64}",
        "shuttle_engine::scheduler::data::random::RandomDataSource::{initialize, reinitialize, next_u64}",
        "shuttle_schedulers::uncontrolled_nondeterminism::UncontrolledNondeterminismCheckScheduler::{new, new_execution, next_task, next_u64}",
        "shuttle_engine::runtime::execution::{ExecutionState::next_u64, CurrentSchedule::{init, push_random, get_schedule}}",
    ],
    "bounds_text": "(thorough: 4 steps, 81 schedules) every recorded schedule of 3 steps over {Task(0), Task(1), Random} (27 schedules in one query), both tasks "
    "offered at every decision, `current` and `is_yielding` arbitrary; concrete data seed 11; unwind 6. Asserted: the task "
    "returned is exactly the recorded one, a Random marker is consumed by exactly one draw whose value is the seeded "
    "stream's next value, replay performs exactly one execution and reports the recorded seed; a recorded task that is not among the offered ones "
    "(3 tasks, any one missing) is never replaced by another task; the data seed reported for the first, second and third "
    "execution of a RandomDataSource (construction seeds 0, 0x12345678, u64::MAX) reproduces that execution's stream; the "
    "nondeterminism checker accepts a replaying execution that repeats the recording one (2 decisions and a draw, symbolic answers); "
    "the offered tasks are symbolically runnable or parked (blocked with spurious wake-ups allowed); recording of draws: inside an "
    "entered ExecutionState, (recorded steps, draws) = (0,1), (1,0), (2,2), the recorded steps symbolically task steps or markers, any seed, any data values: each draw appends exactly one "
    "Random marker in position, is served by exactly one call of the scheduler, earlier steps and the seed are untouched",
    "outside": "recording of task steps inside a running execution (ExecutionState::schedule/advance_to_next_task: the "
    "engine-level harnesses exceed the solver's memory, DESIGN.md 2.1); schedules longer than 3 steps, more than 2 tasks, "
    "the string form (C16); whole-program record->replay equality; the uncontrolled-nondeterminism checker beyond one "
    "recording and one replaying execution of 2 decisions and a draw",
    "rule": "",
}

PROPERTIES["C05"] = {
    "level": "model_checking",
    "jobs": [
        K("c05_park_seq4", timeout=600),
        K("c05_park_seq6", tier="thorough", timeout=1800),
    ],
    "functions_encoded": ["shuttle_engine::runtime::task::Task::{park, unpark, unblock, block, runnable, blocked, can_spuriously_wakeup}"],
    "bounds_text": "every sequence of 4 (quick) / 6 (thorough) operations over {park, unpark, spurious wake-up by the "
    "scheduler, block on something else, released by that something else} on one task, op kind symbolic at every step; unwind 6/8",
    "outside": "Condvar, Barrier and Once (their code runs inside an execution and exceeds the solver's memory, DESIGN.md 2.1); "
    "the std-level park()/unpark() wrappers in shuttle-std/src/thread.rs (they add the scheduling points around Task::park/unpark)",
    "rule": "",
}

PROPERTIES["C17"] = {
    "level": "model_checking",
    "jobs": [
        K("c17_wake_seq4", module="c05", timeout=600),
        K("c17_wake_seq6", module="c05", tier="thorough", timeout=1800),
    ],
    "functions_encoded": ["shuttle_engine::runtime::task::Task::{sleep_unless_woken, wake (through abort), sleep, unblock, finish, abort}"],
    "bounds_text": "every sequence of 4 (quick) / 6 (thorough) operations over {executor puts the task to sleep after a Pending "
    "poll, waker invoked / abort requested (Task::abort), task finishes, task blocks on a primitive inside its poll, is released} on one task, op kind symbolic at every step; unwind 6/8",
    "outside": "the executor loop itself (Task::from_future), JoinHandle/Wrapper (result delivery, abort, detach), block_on: "
    "they run inside an execution with coroutines and exceed what the solver can encode (DESIGN.md 2.1)",
    "rule": "",
}

PROPERTIES["C20"] = {
    "level": "model_checking",
    "jobs": [
        K("c20_map_constructors_concrete_probes", timeout=600, shared_covers=True),
        K("c20_set_constructors_concrete_probes", timeout=600, shared_covers=True),
        K("c20_deserialized_collections_fixed_hasher", timeout=900),
        K("c20_map_constructors_fixed_hasher", timeout=900, shared_covers=True),
        K("c20_set_constructors_fixed_hasher", timeout=900, shared_covers=True),
    ],
    "functions_encoded": [
        "deterministic_collections::HashMap::{new, with_capacity, default, from([..]), from_iter, from(std map), clone}",
        "deterministic_collections::HashSet::{new, with_capacity, default, from_iter, from(std set), bitor, bitand, bitxor, sub}",
    ],
    "bounds_text": "every u64 probe key; empty collections (the hasher of a collection does not depend on its contents); "
    "RandomState::new is stubbed to keys different from the fixed ones, so any constructor reaching it is caught; unwind 4",
    "outside": "parking_lot, DashMap/DashSet, rand and lazy_static wrappers (they run inside an execution: DESIGN.md 2.1); "
    "equality of iteration order across processes is argued from equality of hasher keys, not run; non-empty collections",
    "rule": "",
}

PROPERTIES["C08"] = {
    "level": "model_checking",
    "jobs": [K("c08_metrics_wrapper_transparent", module="kp", timeout=600),
             K("c01_nd_checker_record_then_replay", module="kp", timeout=900),
             K("c08_annotation_wrapper_transparent", module="kp", timeout=900),
             K("c08_portfolio_stop_wrapper", module="kp", timeout=900)],
    "functions_encoded": [
        "shuttle_engine::scheduler::metrics::MetricsScheduler::{new, new_execution, next_task, next_u64, record_and_reset_metrics}",
        "shuttle_schedulers::annotation::AnnotationScheduler::{new, new_execution, next_task, next_u64} (feature `annotation` off)",
        "shuttle_schedulers::uncontrolled_nondeterminism::UncontrolledNondeterminismCheckScheduler::{new, new_execution, next_task, next_u64}",
        "shuttle_engine::runtime::runner::PortfolioStoppableScheduler::{new_execution, next_task, next_u64} (through hook verif_portfolio_stoppable)",
    ],
    "bounds_text": "each wrapper around an inner scheduler with symbolic answers: task lists [t2] and [t0,t2], any `current`, "
    "any is_yielding, any draw value, inner new_execution Some/None, inner next_task Some(first)/Some(last)/None; metrics: across an "
    "execution boundary; nondeterminism checker: one recording execution then one replaying execution of 2 decisions and a draw; "
    "portfolio wrapper: stop flag raised before the execution, before the decision, or never (symbolic)",
    "outside": "the runtime side of the contract (what ExecutionState::schedule hands to the scheduler and which task then runs): "
    "the engine-level harness (kani/core/src/c03.rs, validated natively) does not finish symbolic execution in 30 min / "
    "exhausts 50 GB in CBMC's propositional post-processing (DESIGN.md 2.1); the annotation wrapper with feature "
    "`annotation` on (JSON recording); longer call sequences through the wrappers",
    "rule": "",
}

PROPERTIES["C13"] = {
    "level": "model_checking",
    "jobs": [
        K("c13_budget_round_robin", module="kp", timeout=600),
        K("c13_budget_replay_once", module="kp", timeout=600),
        K("c13_step_bound_arith", module="kp", timeout=600),
        K("c13_budget_dfs_no_choices", module="kp", timeout=600),
        K("c13_reset_then_bound", module="kp", timeout=900),
        K("c13_step_bound_reaction", module="kp", timeout=900),
    ],
    "functions_encoded": ["shuttle_schedulers::round_robin::RoundRobinScheduler::{new, new_execution}",
                          "shuttle_schedulers::replay::ReplayScheduler::new_execution",
                          "shuttle_schedulers::dfs::DfsScheduler::{new, new_execution, next_task} (choice-free body)",
                          "shuttle_engine::runtime::execution::{ExecutionState::is_step_bound_exceeded, CurrentSchedule::{init, len}}",
                          "shuttle_engine::current::reset_step_count",
                          "shuttle_engine::runtime::execution::ExecutionState::schedule (up to the first access to the task table: "
                          "double-scheduling guard, step-bound reaction for MaxSteps::{None, FailAfter, ContinueAfter})"],
    "bounds_text": "iteration budgets 0..=3 (symbolic) of the round-robin scheduler, the single execution of the replay "
    "scheduler, DFS budgets None / Some(0..=3) on a body without choices: new_execution returns Some exactly budget times, then "
    "None forever (5 calls); step-bound comparison: recorded schedule of 3 steps, reset point 0..=3, every usize bound; "
    "reset_step_count (real function inside an entered ExecutionState) after 0..=3 recorded steps followed by 0..=3 further "
    "steps, task steps and random draws alike, every usize bound: the bound trips exactly when the steps since the reset reach it; "
    "reaction of ExecutionState::schedule (recorded schedule of 3 steps, reset point 0..=3, mode None / FailAfter(n) / ContinueAfter(n), "
    "every usize n): FailAfter reached -> StepBoundExceeded error, ContinueAfter reached -> Ok with the execution marked Stopped, "
    "otherwise the function goes on to the task table (where the solver's path ends: TaskTable::iter stubbed to 'assert the bound "
    "was not reached, end the path')",
    "outside": "everything in ExecutionState::schedule behind the step-bound reaction (task table walk, deadlock verdict, scheduler call) "
    "and what run_to_completion / Runner do with the StepBoundExceeded error (panic message) and the Stopped mark: "
    "engine-level harness kani/core/src/c03.rs, validated natively, beyond the solver (DESIGN.md 2.1); budgets of the PCT and URW "
    "schedulers (hashbrown / unbounded rejection-sampling loops in `rand`; the random scheduler's budget is asserted under C10); "
    "Runner::run's loop and count; max_time",
    "assumptions": STANDARD_ASSUMPTIONS
    + ["c13_step_bound_reaction only: shuttle_engine::verif_support::TaskTable::iter (first access of ExecutionState::schedule to the "
       "task table, under the hooks) replaced by a stub that asserts 'the step bound was not reached' and ends the path "
       "(kani::assume(false)): nothing behind it is part of that harness's claim"],
    "rule": "",
}
del PROPERTIES["C03"]


PROPERTIES["C04"] = {
    "level": "model_checking",
    "jobs": [
        K("c04_rwlock_reentrant_try_read_leaves_lock_unchanged", timeout=1200, mem_gb=14),
        K("c04_rwlock_try_paths_two_tasks", timeout=1200, mem_gb=14),
        K("c04_mutex_try_paths_two_tasks", timeout=1200, mem_gb=14),
    ],
    "functions_encoded": [
        "shuttle_std::sync::{RwLock::{try_read, try_write, try_lock}, RwLockReadGuard::drop, RwLockWriteGuard::drop, "
        "Mutex::{try_lock}, MutexGuard::drop}",
        "shuttle_engine::future::batch_semaphore::BatchSemaphore::{try_acquire, release}",
    ],
    "bounds_text": "three literal operation sequences on one lock with 1-2 tasks (non-blocking paths only)",
    "outside": "blocking lock/read/write (Acquire futures), poisoning, atomics, schedules (control is literal)",
    "rule": "",
}


PROPERTIES["C10"] = {
    "level": "model_checking",
    "jobs": [
        K("c10_random_seed_reproduces_2", module="kp", timeout=700),
        K("c10_random_seed_reproduces_2_seed0", module="kp", tier="thorough", timeout=1500),
        K("c10_random_seed_reproduces_2_seedmax", module="kp", tier="thorough", timeout=1500),
        K("c10_probe_seed1", module="kp", tier="thorough", timeout=1500),
        K("c10_probe_seedbeef", module="kp", tier="thorough", timeout=1500),
    ],
    "functions_encoded": [
        "shuttle_schedulers::random::RandomScheduler::{new_from_seed, new_execution, next_task, next_u64}",
        "shuttle_engine::scheduler::data::random::RandomDataSource::{initialize, reinitialize, next_u64}",
        "rand::seq::SliceRandom::choose / rand::distributions::uniform::UniformInt::<u32>::sample_single (rejection loop, unwinding "
        "assertion on), rand_pcg::Mcg128Xsl64::{seed_from_u64, next_u64}",
    ],
    "bounds_text": "construction seed concrete (0x12345678 quick; also 0, 1, 0xdeadbeef and u64::MAX thorough); 2 iterations; "
    "in every iteration two operations, each symbolically a data draw or a decision among 1, 2 or 3 offered tasks; the iteration "
    "to reproduce is symbolic; unwind 12 (rand 0.8's rejection loop rejects up to half of the draws by design: the unwinding "
    "assertion proves that on every generator state reachable in the bound it exits within 11 rounds; with unwind 5 it passes for "
    "0x12345678 only)",
    "outside": "symbolic construction seeds (PCG's 128-bit multiply on a symbolic seed finishes only up to 8 seed bits); "
    "uniformity / independence of the choice and eventual coverage of every schedule (probabilistic statements); the uniform "
    "random walk scheduler (std HashMap: hashbrown probing is beyond the solver); SHUTTLE_RANDOM_SEED / "
    "SHUTTLE_ALWAYS_PERSIST_SEED set in the environment (stubbed unset); more than two operations per iteration (three: 12 GB exhausted during symbolic execution)",
    "assumptions": STANDARD_ASSUMPTIONS
    + ["std::env::var stubbed to Err(NotPresent): SHUTTLE_ALWAYS_PERSIST_SEED is unset (SHUTTLE_RANDOM_SEED: seed_from_env is the identity)",
       "construction seeds are concrete; the reported per-iteration seeds are whatever the real generators produce from them"],
    "rule": "",
}


# Engine-level instances whose Kani verdict is not stable (see DESIGN.md 2.1): kept in the crate for native
# validation, not registered as checks.
import os as _os
if not _os.environ.get("VERIF_EXPERIMENTAL"):
    for _p in ("C18", "C04"):
        PROPERTIES.pop(_p, None)
