"""Registry of harness instances per property.

Each job is a dict:
  kind      'kani' | 'smt'
  crate     harness crate under /verif/kani/<crate>         (kani)
  harness   proof harness name                              (kani)
  features  extra cargo features of shuttle-engine          (kani)  e.g. ['vector-clocks']
  tier      'quick' (run in both tiers) | 'thorough'
  timeout   wall cap in seconds, mem_gb address-space cap
"""

STANDARD_ASSUMPTIONS = [
    "Kani 0.68 / CBMC 6.11 (cadical) model of rustc MIR for the dev profile; panic=abort (no unwinding)",
    "crate `tracing` replaced by a no-op facade (/verif/stubs/tracing): logging is not observed",
    "std::hash::RandomState::new stubbed to fixed keys; Backtrace::force_capture -> disabled; "
    "shuttle_engine::{backtrace_enabled,silence_warnings,seed_from_env} -> false/true/identity (no env vars); "
    "alloc::fmt::format -> empty String; std::thread::panicking -> false",
    "cargo feature `verif-hooks`: tasks have no coroutine (PooledContinuation stub, null yielder); "
    "thread::switch() calls a harness callback instead of suspending; the three engine thread-locals with "
    "destructors are process statics; ExecutionState.tasks is a Vec<Task> instead of SmallVec<[Task;16]> "
    "(SmallVec's inline/heap union forces CBMC into byte-level encoding of the whole task table)",
    "harness-owned objects are leaked with mem::forget at the end (drop glue is not part of the claim "
    "unless a harness drops explicitly)",
    "shapes (number of tasks, steps, slots, container lengths) are concrete per harness instance; "
    "contents, choices, operands and schedules are symbolic",
]


def K(harness, crate="core", tier="quick", features=(), timeout=None, mem_gb=12, **kw):
    d = {"kind": "kani", "crate": crate, "harness": harness, "tier": tier, "features": list(features), "mem_gb": mem_gb}
    if timeout:
        d["timeout"] = timeout
    d.update(kw)
    return d


PROPERTIES = {}

PROPERTIES["C18"] = {
    "level": "model_checking",
    "jobs": [
        K("c18_try_try_rel", timeout=900, mem_gb=14, shared_covers=True),
        K("c18_try_close_try", timeout=900, mem_gb=14, shared_covers=True),
        K("c18_rel_try_try", tier="thorough", timeout=900, mem_gb=14, shared_covers=True),
        K("c18_try_rel_sleep_try", tier="thorough", timeout=1200, mem_gb=14, shared_covers=True),
    ],
    "functions_encoded": [
        "shuttle_engine::future::batch_semaphore::{BatchSemaphore::{new_with_signature, try_acquire, release, close, "
        "available_permits, reblock_if_unfair}, BatchSemaphoreState::{acquire_permits, unblock_waiters_from_front}, "
        "PermitsAvailable::{acquire, release}}",
        "shuttle_engine::runtime::execution::ExecutionState::{with, me, update_clock, increment_clock}; Task::sleep_unless_woken",
    ],
    "bounds_text": "2 tasks; control skeletons (which task performs which operation) literal: [try,try,release], "
    "[try,close,try] (quick) + [release,try,try], [try,release,sleep,try] (thorough); initial permits 0..=3, every batch size "
    "1..=3 per operation and the fairness mode symbolic; after every operation: result, available permits, queue length and "
    "closed flag equal the reference counting model; unwind 5",
    "outside": "everything involving an Acquire future - queued waiters, FIFO order, grants, cancellation, wake-ups (the heart of "
    "the property): with a queued Acquire CBMC's propositional post-processing exhausts 16 GB even for the fully concrete "
    "skeleton [acquire, poll, release] (harnesses c18_new_poll_rel*, validated natively only); symbolic operation kinds; "
    "3+ tasks; upgrade()",
    "rule": "",
}


PROPERTIES["C16"] = {
    "level": "model_checking",
    "jobs": [
        K("c16_varint_roundtrip_all_u64", timeout=300),
        K("c16_varint_read_total_11_bytes", timeout=300),
        K("c16_malformed_bin0", timeout=300),
        K("c16_malformed_bin1", timeout=300),
        K("c16_malformed_bin2", timeout=300),
        K("c16_malformed_bin3", tier="thorough", timeout=900),
        K("c16_nonhex_rejected", timeout=300),
    ],
    "functions_encoded": [
        "shuttle_engine::scheduler::serialization::varint::{space_needed, WriteVarInt::write_u64_varint, "
        "ReadVarInt::read_u64_varint, read_u8}",
        "shuttle_engine::scheduler::serialization::deserialize_schedule (whitespace filter on the empty string, "
        "version check, three header varints, width/length validation, step loop over bitvec::BitSlice)",
    ],
    "bounds_text": "varint kernels: every u64 (encode, length, decode, exact consumption), every byte string of "
    "length <= 11 (decoder total, <= 10 bytes read); decoder binary stage: every byte vector of length 0..=3 "
    "after hex decoding (any version byte, any truncated or malformed header); unwind 12",
    "outside": "symbolic *strings* (str::chars/String::from_iter/hex on symbolic bytes exhaust 12 GB for 2 "
    "characters): the third-party `hex` layer is an environment stub returning arbitrary bytes; byte vectors "
    "longer than 3 with a fully symbolic header (symbolic Vec::with_capacity / bit-slice lengths exhaust 12 GB)",
    "rule": "",
    "assumptions": STANDARD_ASSUMPTIONS
    + ["hex::encode / hex::decode replaced by an environment stub: decode returns the harness's arbitrary byte "
       "vector (or an error), i.e. the claim is over every byte vector hex decoding could produce"],
}


VC = ("vector-clocks",)

PROPERTIES["C15"] = {
    "level": "model_checking",
    "jobs": [
        K("c15_laws_3_3", features=VC, shared_covers=True, timeout=600),
        K("c15_laws_2_3", features=VC, shared_covers=True, timeout=600),
        K("c15_laws_3_1", features=VC, shared_covers=True, timeout=600),
        K("c15_lub_2", features=VC, timeout=600),
        K("c15_extend", features=VC, timeout=600),
        K("c15_replay_target_clock_filter", features=VC, timeout=900),
        K("c15_extend_far", features=VC, timeout=900),
        K("c15_laws_4_4", features=VC, shared_covers=True, tier="thorough", timeout=1800),
        K("c15_lub_3", features=VC, tier="thorough", timeout=1800),
    ],
    "functions_encoded": [
        "shuttle_engine::runtime::task::clock::VectorClock::{from, extend, increment, update, get, partial_cmp, clone}",
    ],
    "bounds_text": "clock lengths (3,3), (2,3), (3,1) and three clocks of length 2 (quick); (4,4) and three clocks of "
    "length 3 (thorough); every u32 value in every entry; unwind 6-8",
    "outside": "clocks longer than 4 entries; the happens-before edges added by the primitives (update_clock / "
    "increment_clock call sites) are not covered by this check",
    "rule": "",
}


PROPERTIES["C09"] = {
    "level": "model_checking",
    "jobs": [
        K("c09_dfs_depth2", timeout=900),
        K("c09_dfs_depth2_gap_ids", timeout=900),
        K("c09_dfs_depth2_maxiter", timeout=900),
    ],
    "functions_encoded": [
        "shuttle_schedulers::dfs::DfsScheduler::{new, new_execution, next_task, next_u64, has_more_choices}",
        "shuttle_engine::scheduler::data::fixed::FixedDataSource::{initialize, reinitialize, next_u64}",
    ],
    "bounds_text": "every choice tree of depth <= 2 with branching <= 2 (3^3 = 27 trees per query: each internal node "
    "ends the execution, offers one task or offers two), ids contiguous [0,1] and with a gap [0,2]; iteration bound "
    "k in 0..=5 symbolic; unwind 6",
    "outside": "deeper trees / more than two runnable tasks; the check_dfs entry point and Runner loop around the "
    "scheduler (coroutines); step bounds are covered only in the sense that a tree truncated at depth 2 is a tree",
    "rule": "",
}


_DECISION_FUNCS = [
    "shuttle_engine::runtime::execution::{Execution::run_to_completion, ExecutionState::{schedule, advance_to_next_task, "
    "is_step_bound_exceeded, finish_task, request_yield, exit_current_truncates_execution}, CurrentSchedule::{init, push_task, len, get_schedule}}",
    "shuttle_engine::runtime::task::Task::{block, sleep, unblock, finish, detach, runnable, blocked, can_spuriously_wakeup, finished}",
]
_DECISION_BOUNDS = (
    "one scheduling decision (plus the decision that follows it) of the real run_to_completion loop from every task table "
    "with N tasks, each Runnable / Blocked / Blocked-spurious / Sleeping / Finished x attached / detached, built with the real "
    "transition functions; any task as `current`; yield request symbolic; step bound mode {None, FailAfter(n), ContinueAfter(n)}, "
    "n in 0..=4, recorded schedule length 2, reset point 0..=2; scheduler answer symbolic (any offered task, or None); unwind 5"
)
_DECISION_OUTSIDE = (
    "more than 3 tasks; sequences of more than two decisions; the coroutine switch itself (task steps are a callback); "
    "the panic raised from the verdict and its message (format_for_deadlock) are not executed"
)

def D(h, tier="quick", **kw):
    return K(h, module="c03", tier=tier, timeout=1500, mem_gb=16, shared_covers=True, **kw)


_D1 = ["c03_d1_c0_f0", "c03_d1_c0_f1"]
_D2 = ["c03_d2_c0_f00", "c03_d2_c1_f00", "c03_d2_c0_f01", "c03_d2_c0_f10", "c03_d2_c0_f11", "c03_d2_c1_f01", "c03_d2_c1_f10"]
_D3 = ["c03_d3_c0_f000", "c03_d3_c1_f000", "c03_d3_c2_f001", "c03_d3_c0_f010", "c03_d3_c1_f100"]
_SKEL = (" One instance per control skeleton (which task ran last, which tasks are finished): literal, so that every index "
         "into the task table is a constant for the solver; N=2: all 7 skeletons with an unfinished... see registry; N=3: 5 of 24.")

PROPERTIES["C03"] = {
    "level": "model_checking",
    "jobs": [D(h) for h in _D1 + _D2[:2]] + [D(h, "thorough") for h in _D2[2:] + _D3],
    "functions_encoded": _DECISION_FUNCS,
    "bounds_text": "N = 1, 2 (quick: 4 skeletons), all N<=2 skeletons and 5 N=3 skeletons (thorough): " + _DECISION_BOUNDS + _SKEL,
    "outside": _DECISION_OUTSIDE + "; verdicts of whole programs over the primitives (only the decision function is covered)",
    "rule": "",
}
PROPERTIES["C08"] = {
    "level": "model_checking",
    "jobs": [D(h) for h in _D2[:3]] + [D(h, "thorough") for h in _D2[3:] + _D3],
    "functions_encoded": _DECISION_FUNCS,
    "bounds_text": "N = 2 (quick: 3 skeletons; thorough: all 7 plus 5 N=3 skeletons): " + _DECISION_BOUNDS + _SKEL,
    "outside": _DECISION_OUTSIDE + "; wrapper schedulers (metrics, annotation, portfolio stop, nondeterminism check)",
    "rule": "",
}
PROPERTIES["C13"] = {
    "level": "model_checking",
    "jobs": [D(h) for h in _D1 + _D2[:1]] + [D(h, "thorough") for h in _D2[1:]],
    "functions_encoded": _DECISION_FUNCS,
    "bounds_text": "N = 1, 2: " + _DECISION_BOUNDS + _SKEL,
    "outside": _DECISION_OUTSIDE + "; iteration budgets of the schedulers, Runner::run's loop and return value, max_time",
    "rule": "",
}


# ---- K-pure families (no ExecutionState): these are the harnesses that fit comfortably ----------------

PROPERTIES["C01"] = {
    "level": "model_checking",
    "jobs": [
        K("c01_replay_fidelity_3", module="kp", timeout=900),
        K("c13_budget_replay_once", module="kp", timeout=600),
        K("c01_data_seed_reproduces_each_execution", module="kp", timeout=900),
        K("c01_nd_checker_record_then_replay", module="kp", timeout=900),
        K("c01_replay_refuses_missing_task", module="kp", timeout=900),
        K("c01_replay_fidelity_4", module="kp", tier="thorough", timeout=2400),
    ],
    "functions_encoded": [
        "shuttle_schedulers::replay::ReplayScheduler::{new_from_schedule, new_execution, next_task, next_u64}",
        "shuttle_engine::scheduler::data::random::RandomDataSource::{initialize, reinitialize, next_u64}",
    ],
    "bounds_text": "every recorded schedule of 3 steps over {Task(0), Task(1), Random} (27 schedules in one query), both tasks "
    "offered at every decision, `current` and `is_yielding` arbitrary; concrete data seed 11; unwind 6. Asserted: the task "
    "returned is exactly the recorded one, a Random marker is consumed by exactly one draw whose value is the seeded "
    "stream's next value, replay performs exactly one execution and reports the recorded seed",
    "outside": "recording side inside a running execution (ExecutionState::schedule/advance_to_next_task/next_u64: the "
    "engine-level harnesses exceed the solver's memory, DESIGN.md 2.1); schedules longer than 3 steps, more than 2 tasks, "
    "offered lists that omit the recorded task (refusal path panics, not modelled); the string form (C16); "
    "whole-program record->replay equality; the uncontrolled-nondeterminism checker",
    "rule": "",
}

PROPERTIES["C05"] = {
    "level": "model_checking",
    "jobs": [
        K("c05_park_seq4", timeout=600),
        K("c05_park_seq6", tier="thorough", timeout=1800),
    ],
    "functions_encoded": ["shuttle_engine::runtime::task::Task::{park, unpark, unblock, block, runnable, blocked, can_spuriously_wakeup}"],
    "bounds_text": "every sequence of 4 (quick) / 6 (thorough) operations over {park, unpark, spurious wake-up by the "
    "scheduler, block on something else} on one task, op kind symbolic at every step; unwind 6/8",
    "outside": "Condvar, Barrier and Once (their code runs inside an execution and exceeds the solver's memory, DESIGN.md 2.1); "
    "the std-level park()/unpark() wrappers in shuttle-std/src/thread.rs (they add the scheduling points around Task::park/unpark)",
    "rule": "",
}

PROPERTIES["C17"] = {
    "level": "model_checking",
    "jobs": [
        K("c17_wake_seq4", module="c05", timeout=600),
        K("c17_wake_seq6", module="c05", tier="thorough", timeout=1800),
    ],
    "functions_encoded": ["shuttle_engine::runtime::task::Task::{sleep_unless_woken, wake (through abort), sleep, unblock, finish, abort}"],
    "bounds_text": "every sequence of 4 (quick) / 6 (thorough) operations over {executor puts the task to sleep after a Pending "
    "poll, waker invoked, task finishes} on one task, op kind symbolic at every step; unwind 6/8",
    "outside": "the executor loop itself (Task::from_future), JoinHandle/Wrapper (result delivery, abort, detach), block_on: "
    "they run inside an execution with coroutines and exceed what the solver can encode (DESIGN.md 2.1)",
    "rule": "",
}

PROPERTIES["C20"] = {
    "level": "model_checking",
    "jobs": [
        K("c20_map_constructors_concrete_probes", timeout=600, shared_covers=True),
        K("c20_set_constructors_concrete_probes", timeout=600, shared_covers=True),
        K("c20_deserialized_collections_fixed_hasher", timeout=900),
        K("c20_map_constructors_fixed_hasher", timeout=900, shared_covers=True),
        K("c20_set_constructors_fixed_hasher", timeout=900, shared_covers=True),
    ],
    "functions_encoded": [
        "deterministic_collections::HashMap::{new, with_capacity, default, from([..]), from_iter, from(std map), clone}",
        "deterministic_collections::HashSet::{new, with_capacity, default, from_iter, from(std set), bitor, bitand, bitxor, sub}",
    ],
    "bounds_text": "every u64 probe key; empty collections (the hasher of a collection does not depend on its contents); "
    "RandomState::new is stubbed to keys different from the fixed ones, so any constructor reaching it is caught; unwind 4",
    "outside": "parking_lot, DashMap/DashSet, rand and lazy_static wrappers (they run inside an execution: DESIGN.md 2.1); "
    "equality of iteration order across processes is argued from equality of hasher keys, not run; non-empty collections",
    "rule": "",
}

PROPERTIES["C08"] = {
    "level": "model_checking",
    "jobs": [K("c08_metrics_wrapper_transparent", module="kp", timeout=600),
             K("c01_nd_checker_record_then_replay", module="kp", timeout=900),
             K("c08_annotation_wrapper_transparent", module="kp", timeout=900)],
    "functions_encoded": ["shuttle_engine::scheduler::metrics::MetricsScheduler::{new, new_execution, next_task, next_u64, record_and_reset_metrics}"] + _DECISION_FUNCS,
    "bounds_text": "MetricsScheduler around an inner scheduler with symbolic answers: task lists [t2] and [t0,t2], any `current`, "
    "any is_yielding, any draw value, inner new_execution Some/None, across an execution boundary",
    "outside": "the runtime side of the contract (what ExecutionState::schedule hands to the scheduler and which task then runs): "
    "the engine-level harness (kani/core/src/c03.rs, validated natively) does not finish symbolic execution in 30 min / "
    "exhausts 50 GB in CBMC's propositional post-processing (DESIGN.md 2.1); annotation / portfolio-stop / "
    "nondeterminism-check wrappers",
    "rule": "",
}

PROPERTIES["C13"] = {
    "level": "model_checking",
    "jobs": [
        K("c13_budget_round_robin", module="kp", timeout=600),
        K("c13_budget_replay_once", module="kp", timeout=600),
        K("c13_step_bound_arith", module="kp", timeout=600),
        K("c13_budget_dfs_no_choices", module="kp", timeout=600),
    ],
    "functions_encoded": ["shuttle_schedulers::round_robin::RoundRobinScheduler::{new, new_execution}",
                          "shuttle_schedulers::replay::ReplayScheduler::new_execution"] + _DECISION_FUNCS,
    "bounds_text": "iteration budgets 0..=3 (symbolic) of the round-robin scheduler and the single execution of the replay "
    "scheduler: new_execution returns Some exactly budget times, then None forever (5 calls)",
    "outside": "step-bound enforcement inside ExecutionState::schedule (engine-level harness kani/core/src/c03.rs: validated "
    "natively, beyond the solver: DESIGN.md 2.1); budgets of the random / PCT / "
    "DFS schedulers (env-var reads and unbounded rejection-sampling loops in `rand`); Runner::run's loop and count; max_time",
    "rule": "",
}
del PROPERTIES["C03"]


PROPERTIES["C04"] = {
    "level": "model_checking",
    "jobs": [
        K("c04_rwlock_reentrant_try_read_leaves_lock_unchanged", timeout=1200, mem_gb=14),
        K("c04_rwlock_try_paths_two_tasks", timeout=1200, mem_gb=14),
        K("c04_mutex_try_paths_two_tasks", timeout=1200, mem_gb=14),
    ],
    "functions_encoded": [
        "shuttle_std::sync::{RwLock::{try_read, try_write, try_lock}, RwLockReadGuard::drop, RwLockWriteGuard::drop, "
        "Mutex::{try_lock}, MutexGuard::drop}",
        "shuttle_engine::future::batch_semaphore::BatchSemaphore::{try_acquire, release}",
    ],
    "bounds_text": "three literal operation sequences on one lock with 1-2 tasks (non-blocking paths only)",
    "outside": "blocking lock/read/write (Acquire futures), poisoning, atomics, schedules (control is literal)",
    "rule": "",
}


# Engine-level instances whose Kani verdict is not stable (see DESIGN.md 2.1): kept in the crate for native
# validation, not registered as checks.
for _p in ("C18", "C04", "C09"):
    PROPERTIES.pop(_p, None)
