"""Registry of harness instances per property.

Each job is a dict:
  kind      'kani' | 'smt'
  crate     harness crate under /verif/kani/<crate>         (kani)
  harness   proof harness name                              (kani)
  features  extra cargo features of shuttle-engine          (kani)  e.g. ['vector-clocks']
  tier      'quick' (run in both tiers) | 'thorough'
  timeout   wall cap in seconds, mem_gb address-space cap
"""

STANDARD_ASSUMPTIONS = [
    "Kani 0.68 / CBMC 6.11 (cadical) model of rustc MIR for the dev profile; panic=abort (no unwinding)",
    "crate `tracing` replaced by a no-op facade (/verif/stubs/tracing): logging is not observed",
    "std::hash::RandomState::new stubbed to fixed keys; Backtrace::force_capture -> disabled; "
    "shuttle_engine::{backtrace_enabled,silence_warnings,seed_from_env} -> false/true/identity (no env vars); "
    "alloc::fmt::format -> empty String; std::thread::panicking -> false",
    "cargo feature `verif-hooks`: tasks have no coroutine (PooledContinuation stub, null yielder); "
    "thread::switch() calls a harness callback instead of suspending; the three engine thread-locals with "
    "destructors are process statics; ExecutionState.tasks is a Vec<Task> instead of SmallVec<[Task;16]> "
    "(SmallVec's inline/heap union forces CBMC into byte-level encoding of the whole task table)",
    "harness-owned objects are leaked with mem::forget at the end (drop glue is not part of the claim "
    "unless a harness drops explicitly)",
    "shapes (number of tasks, steps, slots, container lengths) are concrete per harness instance; "
    "contents, choices, operands and schedules are symbolic",
]


def K(harness, crate="core", tier="quick", features=(), timeout=None, mem_gb=12, **kw):
    d = {"kind": "kani", "crate": crate, "harness": harness, "tier": tier, "features": list(features), "mem_gb": mem_gb}
    if timeout:
        d["timeout"] = timeout
    d.update(kw)
    return d


PROPERTIES = {}

PROPERTIES["C18"] = {
    "level": "model_checking",
    "jobs": [
        K("c18_n2_s2_l3", module="c18"),
        K("c18_n2_s2_l4_fair", tier="thorough", module="c18", timeout=3000),
        K("c18_n2_s2_l4_unfair", tier="thorough", module="c18", timeout=3000),
    ],
    "functions_encoded": [
        "shuttle_engine::future::batch_semaphore::{BatchSemaphore::{new_with_signature,acquire,try_acquire,release,close,"
        "available_permits,reblock_if_unfair,enqueue_waiter,remove_waiter}, BatchSemaphoreState::{acquire_permits,"
        "unblock_waiters_from_front}, PermitsAvailable::{acquire,release}, Acquire::{poll,drop}}",
        "shuttle_engine::runtime::task::{Task::{block,unblock,sleep_unless_woken,wake}, waker::raw_waker_wake}",
        "shuttle_engine::runtime::execution::ExecutionState::{with,me,get_mut,try_get,update_clock,increment_clock}",
    ],
    "bounds_text": "tasks N=2, acquire slots S=2, steps L=3 (quick) / 4 (thorough, one instance per fairness mode); "
    "initial permits 0..=3, batch sizes 1..=3, both fairness modes, acting task / op kind / slot / count symbolic at "
    "every step; an Acquire may be polled by a task other than its creator; unwind 5",
    "outside": "more than 2 tasks / 2 outstanding acquires / 4 operations; batch size 0 (acquire_permits asserts n>0); "
    "upgrade(); tasks finishing while a waiter is queued (stale-waiter paths); real coroutine switching",
    "rule": "ops alphabet: new_acquire(n), poll(slot), drop(slot), try_acquire(n), release(n), close, task-sleep.",
}


PROPERTIES["C16"] = {
    "level": "model_checking",
    "jobs": [
        K("c16_varint_roundtrip_all_u64", timeout=300),
        K("c16_varint_read_total_11_bytes", timeout=300),
        K("c16_malformed_bin0", timeout=300),
        K("c16_malformed_bin1", timeout=300),
        K("c16_malformed_bin2", timeout=300),
        K("c16_malformed_bin3", tier="thorough", timeout=900),
        K("c16_nonhex_rejected", timeout=300),
    ],
    "functions_encoded": [
        "shuttle_engine::scheduler::serialization::varint::{space_needed, WriteVarInt::write_u64_varint, "
        "ReadVarInt::read_u64_varint, read_u8}",
        "shuttle_engine::scheduler::serialization::deserialize_schedule (whitespace filter on the empty string, "
        "version check, three header varints, width/length validation, step loop over bitvec::BitSlice)",
    ],
    "bounds_text": "varint kernels: every u64 (encode, length, decode, exact consumption), every byte string of "
    "length <= 11 (decoder total, <= 10 bytes read); decoder binary stage: every byte vector of length 0..=3 "
    "after hex decoding (any version byte, any truncated or malformed header); unwind 12",
    "outside": "symbolic *strings* (str::chars/String::from_iter/hex on symbolic bytes exhaust 12 GB for 2 "
    "characters): the third-party `hex` layer is an environment stub returning arbitrary bytes; byte vectors "
    "longer than 3 with a fully symbolic header (symbolic Vec::with_capacity / bit-slice lengths exhaust 12 GB)",
    "rule": "",
    "assumptions": STANDARD_ASSUMPTIONS
    + ["hex::encode / hex::decode replaced by an environment stub: decode returns the harness's arbitrary byte "
       "vector (or an error), i.e. the claim is over every byte vector hex decoding could produce"],
}


VC = ("vector-clocks",)

PROPERTIES["C15"] = {
    "level": "model_checking",
    "jobs": [
        K("c15_laws_3_3", features=VC, timeout=600),
        K("c15_laws_2_3", features=VC, timeout=600),
        K("c15_laws_3_1", features=VC, timeout=600),
        K("c15_lub_2", features=VC, timeout=600),
        K("c15_extend", features=VC, timeout=600),
        K("c15_laws_4_4", features=VC, tier="thorough", timeout=1800),
        K("c15_lub_3", features=VC, tier="thorough", timeout=1800),
    ],
    "functions_encoded": [
        "shuttle_engine::runtime::task::clock::VectorClock::{from, extend, increment, update, get, partial_cmp, clone}",
    ],
    "bounds_text": "clock lengths (3,3), (2,3), (3,1) and three clocks of length 2 (quick); (4,4) and three clocks of "
    "length 3 (thorough); every u32 value in every entry; unwind 6-8",
    "outside": "clocks longer than 4 entries; the happens-before edges added by the primitives (update_clock / "
    "increment_clock call sites) are not covered by this check",
    "rule": "",
}


PROPERTIES["C09"] = {
    "level": "model_checking",
    "jobs": [
        K("c09_dfs_depth2", timeout=900),
        K("c09_dfs_depth2_gap_ids", timeout=900),
        K("c09_dfs_depth2_maxiter", timeout=900),
    ],
    "functions_encoded": [
        "shuttle_schedulers::dfs::DfsScheduler::{new, new_execution, next_task, next_u64, has_more_choices}",
        "shuttle_engine::scheduler::data::fixed::FixedDataSource::{initialize, reinitialize, next_u64}",
    ],
    "bounds_text": "every choice tree of depth <= 2 with branching <= 2 (3^3 = 27 trees per query: each internal node "
    "ends the execution, offers one task or offers two), ids contiguous [0,1] and with a gap [0,2]; iteration bound "
    "k in 0..=5 symbolic; unwind 6",
    "outside": "deeper trees / more than two runnable tasks; the check_dfs entry point and Runner loop around the "
    "scheduler (coroutines); step bounds are covered only in the sense that a tree truncated at depth 2 is a tree",
    "rule": "",
}
