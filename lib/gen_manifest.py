#!/usr/bin/env python3
"""Regenerate /verif/MANIFEST.json from lib/registry.py and lib/manifest_meta.py."""
import json, sys, subprocess
sys.dont_write_bytecode = True
sys.path.insert(0, "/verif/lib")
import registry, manifest_meta as mm

props = [json.loads(l) for l in open("/verif/properties.jsonl")]
ids = [p["id"] for p in props]
checks = []
for pid in ids:
    if pid in registry.PROPERTIES and pid in mm.CLAIMS:
        c = mm.CLAIMS[pid]
        has_thorough = any(j.get("tier") == "thorough" for j in registry.PROPERTIES[pid]["jobs"])
        e = {
            "property_id": pid,
            "quick_cmd": f"./check {pid} --tier quick",
            "evidence_file": f"/verif/evidence/{pid}.json",
            "replay_cmd_template": f"./check {pid} --replay {{path}}",
            "engine": c.get("engine", "kani-cbmc"),
            "level_claimed": {"category": registry.PROPERTIES[pid].get("level", "model_checking"), "text": c["text"], "design_ref": c.get("design_ref", "DESIGN.md 3 " + pid)},
            "level_note": c["note"],
            "technique": c.get("technique", "bounded model checking of the compiled real code (Kani/CBMC, SAT)"),
        }
        if has_thorough:
            e["thorough_cmd"] = f"./check {pid} --tier thorough"
        checks.append(e)
na = [{"property_id": pid, "reason": mm.NOT_APPLICABLE.get(pid, "no check registered")} for pid in ids if pid not in {c["property_id"] for c in checks}]
hooks = subprocess.check_output(["git", "-C", "/repo", "log", "--format=%h %s", "--grep=^verif-hooks"]).decode().strip().splitlines()
fixes = subprocess.check_output(["git", "-C", "/repo", "log", "--format=%h %s", "--grep=^fix:"]).decode().strip().splitlines()
m = {
    "version": 1,
    "setup_cmd": "./setup.sh",
    "hooks": {
        "guard": "cargo feature `verif-hooks` of shuttle-engine (forwarded by the out-of-tree harness crates)",
        "enable": "the harness crates under /verif/kani depend on a scratch copy of /repo with features=[\"verif-hooks\"]; nothing in /repo enables it",
        "baseline_off_cmd": "cd /repo && cargo nextest run --workspace --no-fail-fast --tool-config-file pb:/w/lib/nextest.toml --profile pb --test-threads 8 --offline || cargo test --workspace --no-fail-fast --offline",
        "source_commits": [h.split()[0] for h in hooks][::-1],
        "add_only": True,
    },
    "engines": mm.ENGINES,
    "checks": checks,
    "not_applicable": na,
    "notes": mm.NOTES,
}
json.dump(m, open("/verif/MANIFEST.json", "w"), indent=1)
print("claimed:", [c["property_id"] for c in checks])
print("n/a:", [n["property_id"] for n in na])
