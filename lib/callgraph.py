#!/usr/bin/env python3
"""Dev tool: reachable call graph of a compiled Kani harness (goto binary) and the shortest paths from the
harness to dynamic-dispatch poison (dyn drop glue, fmt::rt::Argument::fmt, hashbrown, backtrace...).
usage: callgraph.py <goto .out file> <harness-function-substring> [pattern ...]"""
import sys, collections, subprocess
out, start_pat = sys.argv[1], sys.argv[2]
pats = sys.argv[3:] or ["drop_glueD", "BoxD", "ArcD", "RcD", "8Argument3fmt", "hashbrown", "backtrace", "resume_unwind", "lock_contended"]
txt = subprocess.run(["goto-instrument", "--reachable-call-graph", out], capture_output=True, text=True).stdout
edges = collections.defaultdict(set)
for l in txt.splitlines():
    if " -> " in l:
        a, b = l.strip().split(" -> ")
        edges[a].add(b)
starts = [n for n in edges if n.endswith(start_pat)]
starts.sort(key=len)
start = starts[0]
prev = {start: None}
q = collections.deque([start])
while q:
    x = q.popleft()
    for y in edges.get(x, ()):
        if y not in prev:
            prev[y] = x
            q.append(y)
print("start:", start[:120], "reachable functions:", len(prev))
seen = set()
for pat in pats:
    hits = [n for n in prev if pat in n]
    print(f"== {pat}: {len(hits)} reachable")
    for t in hits:
        path = []
        x = t
        while x:
            path.append(x)
            x = prev[x]
        path = path[::-1]
        key = tuple(path[1:4])
        if key in seen:
            continue
        seen.add(key)
        print("   via:")
        for p in path[1:8]:
            print("      ", p[:170])
        if len(seen) > 40:
            break
