#!/usr/bin/env python3
"""Regenerate /verif/seeded/README.md from seeded/*/meta.json."""
import json, glob, os
rows = []
for m in sorted(glob.glob("/verif/seeded/*/meta.json")):
    d = json.load(open(m))
    rows.append(d)
out = ["# Seeded changes", "",
       "Each directory holds `patch.diff` (apply with `git -C /repo apply`), the demonstration written by the",
       "sub-agent, and `meta.json`. `caught_by` is what `./check <id>` printed with the patch applied to /repo;",
       "`missed` entries say why the registered harnesses cannot see the change.", "",
       "| id | property | what the change does | needs | result of ./check | ", "|---|---|---|---|---|"]
for d in rows:
    out.append(f"| {d['id']} | {d['property']} | {d['what']} | {d['needs']} | {d['check_result']} |")
open("/verif/seeded/README.md", "w").write("\n".join(out) + "\n")
print("\n".join(out))
