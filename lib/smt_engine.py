"""SMT jobs of the check driver: MIR of the real crate (dumped by the nightly compiler from the scratch copy of
/repo on every run) -> symbolic execution with z3 (lib/mirsym.py). Runs under python3-vt (z3-solver wheel)."""
import json
import os
import re
import subprocess
import sys
import time

VERIF = "/verif"
PY = "python3-vt"


def dump_mir(wdir, crate, fresh=False):
    """MIR text of <crate> in the scratch copy of the repository; regenerated at the start of every check run
    (fresh=True, called once by the driver), then shared by the jobs of that run."""
    out = os.path.join(wdir, f"mir-{crate}.txt")
    if fresh and os.path.exists(out):
        os.remove(out)
    if os.path.exists(out) and os.path.getsize(out) > 0:
        return out, 0.0
    cdir = os.path.join(wdir, "repo", crate)
    tdir = os.path.join(wdir, "target-mir")
    env = dict(os.environ)
    env.update({"CARGO_NET_OFFLINE": "true", "CARGO_TARGET_DIR": tdir, "CARGO_TERM_COLOR": "never"})
    env.pop("RUSTFLAGS", None)
    t = time.time()
    os.utime(os.path.join(cdir, "src", "lib.rs"))
    with open(out, "wb") as f, open(os.path.join(wdir, f"mir-{crate}.log"), "wb") as lg:
        rc = subprocess.call(
            ["cargo", "+nightly", "rustc", "--offline", "--lib", "--", "-Zunpretty=mir", "-C", "debug-assertions=off", "-C", "overflow-checks=on", "--cap-lints=warn"],
            cwd=cdir, env=env, stdout=f, stderr=lg, timeout=1500,
        )
    if rc != 0 or os.path.getsize(out) == 0:
        try:
            os.remove(out)
        except OSError:
            pass
        return None, time.time() - t
    return out, time.time() - t


def run_job(job, wdir, tier):
    """called by lib/driver.py (system python); the solver part runs in a python3-vt subprocess"""
    t0 = time.time()
    name = job["name"]
    res = {"harness": name, "name": name, "engine": "mirsym/z3", "kind": "smt", "covers": [], "samples": []}
    mir, dump_s = dump_mir(wdir, job["crate"])
    if not mir:
        res.update(status="inconclusive", reason=f"the nightly compiler did not produce a MIR dump of {job['crate']} (see {wdir}/mir-{job['crate']}.log)")
        return res
    outp = os.path.join(wdir, "logs", f"{name}.json")
    os.makedirs(os.path.dirname(outp), exist_ok=True)
    cmd = [PY, os.path.join(VERIF, "lib", "smt_engine.py"), "--mir", mir, "--job", json.dumps(job), "--out", outp]
    try:
        p = subprocess.run(cmd, capture_output=True, text=True, timeout=job.get("timeout", 900) + 60)
        err = p.stderr[-2000:]
    except subprocess.TimeoutExpired:
        res.update(status="inconclusive", reason="timeout of the symbolic execution", wall_s=round(time.time() - t0, 1))
        return res
    if not os.path.exists(outp):
        res.update(status="inconclusive", reason="symbolic executor crashed: " + err[-600:], wall_s=round(time.time() - t0, 1))
        return res
    r = json.load(open(outp))
    res.update(r)
    res["wall_s"] = round(time.time() - t0, 1)
    res["mir_dump_s"] = round(dump_s, 1)
    if res["status"] == "fail":
        # replay natively against the real code before anything is reported
        import driver

        rdir = os.environ.get("VERIF_REPLAY_DIR", os.path.join(VERIF, "replays"))
        os.makedirs(rdir, exist_ok=True)
        rpath = os.path.join(rdir, f"{name}.json")
        rec = {"property": job.get("property"), "harness": name, "engine": "mirsym", "message": res.get("reason"), "counterexample": res.get("counterexample")}
        rep, out = native_replay(job, wdir, rec, driver)
        rec["native_replay"] = out[-3000:]
        rec["native_failure"] = (re.search(r"NATIVE-FAIL (.*)", out) or [None, ""])[1]
        json.dump(rec, open(rpath, "w"), indent=1)
        res["replay"] = rpath
        res["reproduced"] = rep
    return res


def native_replay(job, wdir, rec, driver):
    """build kani/core's `treereplay` against the scratch copy and run the counterexample (or, for a one-step
    counterexample, whose state cannot be set through the public API, a native search over whole runs)"""
    hdir = driver.render_crate("core", wdir, ())
    tdir = os.path.join(wdir, "target-native")
    logf = os.path.join(wdir, "logs", "build-treereplay.log")
    rc, _, _ = driver.sh(["cargo", "build", "--offline", "--bin", "treereplay", "--target-dir", tdir], cwd=hdir, timeout=1500, out=logf)
    exe = os.path.join(tdir, "debug", "treereplay")
    if rc != 0 or not os.path.exists(exe):
        return None, "native replayer failed to build: " + open(logf, errors="replace").read()[-1500:]
    cex = rec.get("counterexample") or {}
    if "nodes" in cex:
        tf = os.path.join(wdir, "logs", rec["harness"] + ".tree")
        with open(tf, "w") as f:
            f.write("bound " + ("none" if cex["max_iterations"] is None else str(cex["max_iterations"])) + "\n")
            for nd in cex["nodes"]:
                f.write("node " + (".".join(map(str, nd["path"])) or "-") + " " + (",".join(map(str, nd["offered_task_ids"])) or "-") + "\n")
        args = [exe, "file", tf]
    else:
        rec["found_by"] = "the solver's counterexample is a one-step state; the reported failure is a whole run found by a native search over random choice trees"
        args = [exe, "random", "300000", "1"]
    try:
        p = subprocess.run(args, capture_output=True, text=True, timeout=900)
    except subprocess.TimeoutExpired:
        return None, "native replay timed out"
    out = p.stdout + p.stderr
    if "NATIVE-FAIL" in out:
        m = re.search(r"TREE (.*)", out)
        if m and "nodes" not in cex:
            rec["native_tree"] = m.group(1)
        return True, out
    if "NATIVE-OK" in out:
        return False, out
    return None, out


def replay_file(job, wdir, rec, driver):
    return native_replay(job, wdir, rec, driver)


# ------------------------------------------------------------------------------------------------ solver side


def make_harness(job):
    import mir_c09

    h = job["harness_class"]
    a = job.get("args", [])
    return getattr(mir_c09, h)(*a)


def solver_main(argv):
    import argparse

    ap = argparse.ArgumentParser()
    ap.add_argument("--mir")
    ap.add_argument("--job")
    ap.add_argument("--out")
    args = ap.parse_args(argv)
    sys.path.insert(0, os.path.join(VERIF, "lib"))
    import mirsym
    from mir_builtins import BUILTINS

    job = json.loads(args.job)
    t0 = time.time()
    text = open(args.mir).read()
    fns = mirsym.parse_mir(text)
    eng = mirsym.Engine(fns, BUILTINS)
    for m in re.finditer(r"^const (\w+): (\w+) = const (-?\d+_\w+);", text, re.M):
        eng.named_consts[m.group(1)] = eng.const(m.group(3))
    h = make_harness(job)
    res = {"status": None, "reason": ""}
    try:
        paths, v = mirsym.explore(eng, h, max_paths=job.get("max_paths", 500000), deadline=t0 + job.get("timeout", 900))
        if v is None:
            res["status"] = "pass"
            if paths == 0:
                res["status"] = "inconclusive"
                res["reason"] = "vacuous: no feasible path through the harness"
        else:
            res["status"] = "fail"
            res["reason"] = v.msg
            res["counterexample"] = h.counterexample(v.model)
    except mirsym.Unsupported as u:
        res["status"] = "inconclusive"
        res["reason"] = "outside the MIR subset / models of the symbolic executor: " + str(u)[:400]
    want = set(job.get("witnesses", []))
    got = set(h.witnesses) | set()
    res["covers"] = [{"desc": w, "status": "SATISFIED" if w in got else "UNSATISFIABLE"} for w in sorted(want | got)]
    if res["status"] == "pass" and want - got:
        res["status"] = "inconclusive"
        res["reason"] = "reachability witnesses not reached: " + "; ".join(sorted(want - got))
    st = eng.stats
    res.update(
        time_s=round(time.time() - t0, 2),
        solver_s=round(st["solver_s"], 2),
        symex_s=round(time.time() - t0 - st["solver_s"], 2),
        n_checks=st["queries"],
        paths=st["paths"],
        mir_steps=st["mir_steps"],
        functions_executed=sorted(st["fn_calls"]),
        models_used=sorted(st["builtin_calls"]),
        distinct_shapes=len(getattr(h, "shapes", []) or []),
    )
    if h.sample is not None:
        res["samples"] = [{"harness": h.name, "case": h.sample, "witnesses": sorted(got)[:6]}]
    json.dump(res, open(args.out, "w"), indent=1)
    return 0


if __name__ == "__main__":
    sys.exit(solver_main(sys.argv[1:]))
