"""C09 harnesses for the MIR symbolic executor: the real DfsScheduler (MIR of shuttle-schedulers/src/dfs.rs)
driven over symbolic choice trees, and one-step contracts from an arbitrary scheduler state."""
import re

import z3

from mir_builtins import deref
from mirsym import Agg, Loc, Panic, Ref, SliceRef, Unsupported, VecObj, Violation, bv, none, some


def fn(eng, method, type_name="DfsScheduler"):
    f = eng.find_fn(type_name, method)
    if f is None:
        raise Unsupported(f"{type_name}::{method} not found in the MIR dump (renamed or removed?)")
    return f


def tag1(eng, v):
    if isinstance(v.tag, int):
        return v.tag == 1
    return eng.branch(v.tag == bv(1, v.tag.size()))


def mk_tasks(ids):
    tasks = [Agg("Task", [i]) for i in ids]
    refs = [Ref(Loc(tasks, i)) for i in range(len(ids))]
    return SliceRef(refs, 0, len(ids))


def asc_ids(eng, prefix, n):
    ids = [z3.BitVec(f"{prefix}_{i}", 64) for i in range(n)]
    for i in range(1, n):
        eng.solver.add(z3.ULT(ids[i - 1], ids[i]))
    return ids


class WholeRun:
    """Every choice tree of depth <= D with at most W tasks offered per decision (shape forked on, task ids symbolic:
    any strictly ascending usize values per decision), iteration bound None or any usize."""

    def __init__(self, D, W, bound):
        self.D, self.W, self.bound = D, W, bound
        self.name = f"c09_mir_dfs_trees_d{D}_w{W}_{'bound' if bound else 'nobound'}"
        self.witnesses = set()
        self.sample = None
        self.shapes = set()

    def __call__(self, eng):
        self.tree = tree = {}
        D, W = self.D, self.W

        def build(path):
            if len(path) == D:
                n = 0
            else:
                nv = z3.BitVec("n_" + "_".join(map(str, path)), 8)
                eng.solver.add(z3.ULE(nv, W))
                n = eng.concretize(nv, 0, W + 1)
            ids = asc_ids(eng, "id_" + "_".join(map(str, path)), n)
            tree[path] = (n, ids)
            for i in range(n):
                build(path + (i,))

        build(())
        leaves = [p for p in sorted(tree) if tree[p][0] == 0]
        L = len(leaves)
        self.k = k = z3.BitVec("max_iterations", 64)
        mi = some(k) if self.bound else none()
        self.cex = {"tree": tree, "bound": self.bound}
        try:
            cell = [eng.call_fn(fn(eng, "new"), [mi, z3.BoolVal(True)])]
            me = Ref(Loc(cell, 0))
            visited, first = [], None
            while True:
                r = eng.call_fn(fn(eng, "new_execution"), [me])
                if not tag1(eng, r):
                    break
                if len(visited) > L:
                    raise Violation("C09: DFS does not stop after the tree is exhausted", eng.model())
                seed = r.f[0].f[0]
                d0 = eng.call_fn(fn(eng, "next_u64"), [me])
                path, cur = (), none()
                while tree[path][0] > 0:
                    n, ids = tree[path]
                    y = z3.Bool(f"yield_{len(visited)}_{len(path)}")
                    ret = eng.call_fn(fn(eng, "next_task"), [me, mk_tasks(ids), cur, y])
                    if not tag1(eng, ret):
                        raise Violation("C09: DFS returned no task although tasks were offered", eng.model())
                    t = ret.f[0]
                    eng.check(z3.Or([t == i for i in ids]), "C09: DFS chose a task that was not offered")
                    idx = next(i for i in range(n) if eng.branch(t == ids[i]))
                    path += (idx,)
                    cur = some(t)
                d1 = eng.call_fn(fn(eng, "next_u64"), [me])
                if first is None:
                    first = (seed, d0, d1)
                else:
                    eng.check(
                        z3.And(seed == first[0], d0 == first[1], d1 == first[2]),
                        "C09: the data seed / data stream of a DFS execution differs from the first execution's",
                    )
                if path in visited:
                    raise Violation("C09: DFS ran the same schedule twice", eng.model())
                visited.append(path)
        except Panic as p:
            raise Violation(f"C09: DFS scheduler code panics on a valid choice tree: {p}", eng.model())
        if not self.bound:
            if set(visited) != set(leaves):
                raise Violation("C09: DFS skipped a schedule", eng.model())
        else:
            eng.check(
                bv(len(visited)) == z3.If(z3.ULT(k, bv(L)), k, bv(L)),
                "C09: with an iteration bound DFS must run exactly min(bound, #schedules) distinct schedules",
            )
            if len(visited) < L:
                self.witnesses.add("the iteration bound cuts the enumeration short")
        self.shapes.add(tuple(sorted((p, tree[p][0]) for p in tree)))
        if L >= 3:
            self.witnesses.add("tree with at least 3 schedules")
        if L == 1:
            self.witnesses.add("tree with a single schedule")
        if any(tree[p][0] >= 2 and tree.get(p + (tree[p][0] - 1,), (0,))[0] >= 2 for p in tree):
            self.witnesses.add("the last sibling at a level has more than one child")
        if any(tree[p][0] >= 3 for p in tree):
            self.witnesses.add("three tasks offered at one decision")
        if L >= 3 and self.sample is None:
            m = eng.model()
            self.sample = render_tree(tree, m, k if self.bound else None)

    def counterexample(self, model):
        return render_tree(self.tree, model, self.k if self.bound else None)


def render_tree(tree, m, k):
    ev = lambda e: m.eval(e, model_completion=True).as_long()
    return {
        "max_iterations": (ev(k) if k is not None else None),
        "nodes": [{"path": list(p), "offered_task_ids": [ev(i) for i in tree[p][1]]} for p in sorted(tree)],
    }


class Step:
    """One call of next_task from an ARBITRARY scheduler state (levels of length L with symbolic contents, depth s,
    n offered tasks with symbolic ids) that satisfies the representation invariant; the post-state is compared with the
    lexicographic-successor specification of depth-first enumeration and must satisfy the invariant again."""

    def __init__(self, L, s, n):
        self.L, self.s, self.n = L, s, n
        self.name = f"c09_mir_dfs_step_L{L}_s{s}_n{n}"
        self.witnesses = set()
        self.sample = None

    def __call__(self, eng):
        L, s, n = self.L, self.s, self.n
        sched = eng.call_fn(fn(eng, "new"), [none(), z3.BoolVal(True)])
        ix = {nm: i for i, nm in enumerate(sched.names)}
        for need in ("levels", "steps", "iterations"):
            if need not in ix:
                raise Unsupported(f"DfsScheduler has no field `{need}` any more")
        c = [z3.BitVec(f"choice_{j}", 64) for j in range(L)]
        last = [z3.Bool(f"last_{j}") for j in range(L)]
        it = z3.BitVec("iterations", 64)
        eng.solver.add(z3.ULT(it, bv(2**63)))
        sched.f[ix["levels"]] = VecObj([Agg("tuple", [c[j], last[j]]) for j in range(L)])
        sched.f[ix["steps"]] = bv(s)
        sched.f[ix["iterations"]] = it
        ids = asc_ids(eng, "id", n)
        if s < L:
            eng.solver.add(z3.Or([c[s] == i for i in ids]))
            eng.solver.add(last[s] == (c[s] == ids[n - 1]))
            eng.solver.add(z3.Or([z3.Not(last[j]) for j in range(s, L)]))
        if eng.solver.check() != z3.sat:
            return
        cell = [sched]
        me = Ref(Loc(cell, 0))
        self.cex = {"L": L, "s": s, "n": n}
        try:
            ret = eng.call_fn(fn(eng, "next_task"), [me, mk_tasks(ids), none(), z3.Bool("yielding")])
        except Panic as p:
            raise Violation(f"C09: next_task panics in a state that satisfies the invariant: {p}", eng.model())
        if not tag1(eng, ret):
            raise Violation("C09: next_task returned None", eng.model())
        t = ret.f[0]
        post = cell[0]
        lv = post.f[ix["levels"]].items
        eng.check(post.f[ix["steps"]] == bv(s + 1), "C09: next_task must advance the depth by one")
        eng.check(post.f[ix["iterations"]] == it, "C09: next_task must not touch the iteration count")

        def same_prefix(upto):
            for j in range(upto):
                eng.check(z3.And(lv[j].f[0] == c[j], lv[j].f[1] == last[j]), f"C09: next_task changed the stored choice at level {j} above the change point")

        if s == L:
            if len(lv) != L + 1:
                raise Violation("C09: a first visit of a level must push exactly one entry", eng.model())
            same_prefix(L)
            eng.check(t == ids[0], "C09: the first visit of a level must take the first offered task")
            eng.check(lv[L].f[0] == ids[0], "C09: the pushed entry must record the choice made")
            eng.check(lv[L].f[1] == z3.BoolVal(n == 1), "C09: the last-sibling flag must say whether the choice was the last offered task")
            self.witnesses.add("first visit of a level")
        else:
            deeper = z3.Or([z3.Not(last[j]) for j in range(s + 1, L)]) if s + 1 < L else z3.BoolVal(False)
            if eng.branch(deeper):
                if len(lv) != L:
                    raise Violation("C09: replaying a level above the change point must keep the stack", eng.model())
                same_prefix(L)
                eng.check(t == c[s], "C09: a level above the change point must repeat its stored choice")
                self.witnesses.add("replay of a stored choice above the change point")
            else:
                if len(lv) != s + 1:
                    raise Violation("C09: the change point must truncate the stack to its own level", eng.model())
                same_prefix(s)
                # successor of the stored choice in the offered list
                succ = ids[n - 1]
                for i in range(n - 2, -1, -1):
                    succ = z3.If(c[s] == ids[i], ids[i + 1], succ)
                eng.check(t == succ, "C09: the change point must move to the next offered sibling")
                eng.check(lv[s].f[0] == t, "C09: the new entry must record the choice made")
                eng.check(lv[s].f[1] == (t == ids[n - 1]), "C09: the last-sibling flag of the new entry is wrong")
                self.witnesses.add("change point: advance to the next sibling and truncate")
        # invariant again: while replaying (depth < stack length) some level at or below has a sibling left
        s2, L2 = s + 1, len(lv)
        if s2 < L2:
            eng.check(z3.Or([z3.Not(lv[j].f[1]) for j in range(s2, L2)]), "C09: invariant lost: replaying with no sibling left below")
        if self.sample is None:
            m = eng.model()
            ev = lambda e: m.eval(e, model_completion=True)
            self.sample = {"levels": [[ev(c[j]).as_long(), bool(z3.is_true(ev(last[j])))] for j in range(L)], "depth": s,
                           "offered": [ev(i).as_long() for i in ids], "returned": ev(t).as_long()}

    def counterexample(self, m):
        ev = lambda e: m.eval(e, model_completion=True)
        L, s, n = self.L, self.s, self.n
        return {"one_step_state": {"levels": [[ev(z3.BitVec(f"choice_{j}", 64)).as_long(), bool(z3.is_true(ev(z3.Bool(f"last_{j}"))))] for j in range(L)],
                                   "depth": s, "offered": [ev(z3.BitVec(f"id_{i}", 64)).as_long() for i in range(n)]}}


class NewExecution:
    """new_execution from an arbitrary state: returns None exactly when the bound is reached or (after the first
    iteration) no level has a sibling left; otherwise counts the iteration, rewinds depth and data stream."""

    def __init__(self, L):
        self.L = L
        self.name = f"c09_mir_dfs_new_execution_L{L}"
        self.witnesses = set()
        self.sample = None

    def __call__(self, eng):
        L = self.L
        tagv = z3.BitVec("bound_tag", 64)
        eng.solver.add(z3.ULE(tagv, 1))
        k = z3.BitVec("max_iterations", 64)
        has_bound = eng.branch(tagv == 1)
        sched = eng.call_fn(fn(eng, "new"), [some(k) if has_bound else none(), z3.Bool("allow")])
        ix = {nm: i for i, nm in enumerate(sched.names)}
        c = [z3.BitVec(f"choice_{j}", 64) for j in range(L)]
        last = [z3.Bool(f"last_{j}") for j in range(L)]
        it = z3.BitVec("iterations", 64)
        st = z3.BitVec("steps", 64)
        eng.solver.add(z3.ULT(it, bv(2**63)))
        if L == 0:
            pass
        sched.f[ix["levels"]] = VecObj([Agg("tuple", [c[j], last[j]]) for j in range(L)])
        sched.f[ix["steps"]] = st
        sched.f[ix["iterations"]] = it
        ds = sched.f[ix["data_source"]]
        ds.f[1] = z3.BitVec("stream_pos", 64)
        cell = [sched]
        self.cex = {"L": L}
        try:
            r = eng.call_fn(fn(eng, "new_execution"), [Ref(Loc(cell, 0))])
        except Panic as p:
            raise Violation(f"C09: new_execution panics: {p}", eng.model())
        exhausted = z3.And(z3.UGT(it, 0), z3.And([last[j] for j in range(L)]) if L else z3.BoolVal(True))
        stop = z3.Or(z3.And(z3.BoolVal(has_bound), z3.UGE(it, k)), exhausted)
        post = cell[0]
        if tag1(eng, r):
            eng.check(z3.Not(stop), "C09: new_execution starts an execution although the bound is reached or the tree is exhausted")
            eng.check(post.f[ix["iterations"]] == it + 1, "C09: new_execution must count the iteration")
            eng.check(post.f[ix["steps"]] == bv(0), "C09: new_execution must restart at depth 0")
            eng.check(post.f[ix["data_source"]].f[1] == bv(0), "C09: new_execution must rewind the fixed data stream")
            lv = post.f[ix["levels"]].items
            if len(lv) != L:
                raise Violation("C09: new_execution must keep the stack of choices", eng.model())
            for j in range(L):
                eng.check(z3.And(lv[j].f[0] == c[j], lv[j].f[1] == last[j]), "C09: new_execution must keep the stack of choices")
            self.witnesses.add("an execution is started")
        else:
            eng.check(stop, "C09: new_execution stops although the bound is not reached and a sibling is left")
            self.witnesses.add("the run ends (bound reached or tree exhausted)")

    def counterexample(self, m):
        ev = lambda e: m.eval(e, model_completion=True)
        return {"new_execution_state": {"levels_last_flags": [bool(z3.is_true(ev(z3.Bool(f"last_{j}")))) for j in range(self.L)],
                                        "iterations": ev(z3.BitVec("iterations", 64)).as_long(),
                                        "bound": [ev(z3.BitVec("bound_tag", 64)).as_long(), ev(z3.BitVec("max_iterations", 64)).as_long()]}}


class NoRandomData:
    """allow_random_data = false: a draw must be refused (panic), never served."""

    name = "c09_mir_dfs_refuses_draws_when_disallowed"

    def __init__(self):
        self.witnesses = set()
        self.sample = None

    def __call__(self, eng):
        cell = [eng.call_fn(fn(eng, "new"), [none(), z3.BoolVal(False)])]
        me = Ref(Loc(cell, 0))
        eng.call_fn(fn(eng, "new_execution"), [me])
        self.cex = {}
        try:
            eng.call_fn(fn(eng, "next_u64"), [me])
        except Panic:
            self.witnesses.add("draw refused")
            return
        raise Violation("C09: DFS with allow_random_data = false served a random draw", eng.model())

    def counterexample(self, m):
        return {"allow_random_data": False}
