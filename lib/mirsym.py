"""
mirsym — a small symbolic executor for rustc MIR (text form, `-Zunpretty=mir`) on top of z3.

Scope (deliberately narrow, see DESIGN.md 2.8): safe, single-threaded functions over integers, booleans, tuples,
structs, Option, references and `Vec`s / slices whose *lengths are concrete on every path*.  Scalars are z3
bit-vectors / booleans; aggregates and the heap are Python objects (every reference is a concrete location), so
the executor forks on every branch whose condition is not decided by the path condition (feasibility is a z3
query) and re-executes from the start under the recorded decision prefix (no state copying).  Calls to functions
that are present in the dump are executed from their MIR; calls into the standard library are dispatched to
hand-written models (`BUILTINS`, each one listed in the evidence as an assumption); anything else raises
`Unsupported`, which the driver reports as *inconclusive*, never as a pass.
"""
import re
import time

import z3

USIZE = 64


class Unsupported(Exception):
    pass


class Panic(Exception):
    """The code under test panics on this path (assert terminator, unwrap of None, index out of bounds, panic!)."""


class Violation(Exception):
    def __init__(self, msg, model):
        super().__init__(msg)
        self.msg = msg
        self.model = model


class Infeasible(Exception):
    pass


# ------------------------------------------------------------------------------------------------ values


class Agg:
    """tuple / struct / enum / closure value; enums carry `tag` (python int or z3 bit-vector)."""

    __slots__ = ("kind", "f", "tag", "names")

    def __init__(self, kind, f, tag=None, names=None):
        self.kind, self.f, self.tag, self.names = kind, list(f), tag, names

    def __repr__(self):
        return f"Agg({self.kind},{self.f},tag={self.tag})"


class VecObj:
    __slots__ = ("items",)

    def __init__(self, items=None):
        self.items = list(items or [])

    def __repr__(self):
        return f"Vec{self.items}"


class MapObj:
    """HashMap / HashSet with concrete key *shape*: list of (key, value); keys compared symbolically."""

    __slots__ = ("items",)

    def __init__(self, items=None):
        self.items = list(items or [])


class Loc:
    __slots__ = ("c", "i")

    def __init__(self, c, i):
        self.c, self.i = c, i

    def load(self):
        return self.c[self.i]

    def store(self, v):
        self.c[self.i] = v


class Ref:
    __slots__ = ("loc",)

    def __init__(self, loc):
        self.loc = loc


class SliceRef:
    """reference to `items[start .. start+n]` of a Python list"""

    __slots__ = ("items", "start", "n")

    def __init__(self, items, start, n):
        self.items, self.start, self.n = items, start, n


class Opaque:
    def __init__(self, what):
        self.what = what

    def __repr__(self):
        return f"Opaque({self.what})"


UNIT = Agg("unit", [])


def clone(v):
    if isinstance(v, Agg):
        return Agg(v.kind, [clone(x) for x in v.f], v.tag, v.names)
    if isinstance(v, VecObj):
        return VecObj([clone(x) for x in v.items])
    if isinstance(v, MapObj):
        return MapObj([(clone(k), clone(x)) for k, x in v.items])
    return v


def bv(n, w=USIZE):
    return z3.BitVecVal(n, w)


def some(v):
    return Agg("Option", [v], 1)


def none():
    return Agg("Option", [], 0)


# ------------------------------------------------------------------------------------------------ parser


class Fn:
    def __init__(self, name, sig):
        self.name, self.sig = name, sig
        self.params = []  # (local index, type text)
        self.ret = ""
        self.blocks = {}
        self.nlocals = 0
        self.src = []


def _match_paren(s, i):
    """index of the ')' matching the '(' at s[i]"""
    d = 0
    for k in range(i, len(s)):
        if s[k] == "(":
            d += 1
        elif s[k] == ")":
            d -= 1
            if d == 0:
                return k
    raise Unsupported("unbalanced parentheses: " + s)


def split_top(s, sep=","):
    out, d, cur, k = [], 0, "", 0
    while k < len(s):
        ch = s[k]
        if ch == '"':
            e = k + 1
            while e < len(s) and s[e] != '"':
                e += 2 if s[e] == "\\" else 1
            cur += s[k : e + 1]
            k = e + 1
            continue
        if ch == "-" and s[k : k + 2] == "->":
            cur += "->"
            k += 2
            continue
        if ch in "([{<":
            d += 1
        elif ch in ")]}>":
            d -= 1
        if ch == sep and d == 0:
            out.append(cur.strip())
            cur = ""
        else:
            cur += ch
        k += 1
    if cur.strip():
        out.append(cur.strip())
    return out


def parse_mir(text):
    fns = {}
    lines = text.split("\n")
    i = 0
    while i < len(lines):
        ln = lines[i]
        if ln.startswith("fn ") and ln.rstrip().endswith("{"):
            hdr = ln[3:].rstrip()[:-1].rstrip()
            # name(args) -> ret
            p = hdr.find("(_1:") if "(_1:" in hdr else hdr.rfind("()")
            name = hdr[:p]
            close = _match_paren(hdr, p)
            fn = Fn(name, hdr)
            for a in split_top(hdr[p + 1 : close]):
                m = re.match(r"_(\d+): (.*)$", a, re.S)
                if m:
                    fn.params.append((int(m.group(1)), m.group(2)))
            fn.ret = hdr[close + 1 :].replace("->", "", 1).strip()
            i += 1
            cur = None
            maxl = len(fn.params)
            while i < len(lines) and not lines[i].startswith("}"):
                s = lines[i].strip()
                fn.src.append(lines[i])
                m = re.match(r"let (?:mut )?_(\d+):", s)
                if m:
                    maxl = max(maxl, int(m.group(1)))
                m = re.match(r"bb(\d+)(?: \(cleanup\))?: \{$", s)
                if m:
                    cur = int(m.group(1))
                    fn.blocks[cur] = []
                elif s == "}" and cur is not None:
                    cur = None
                elif cur is not None and s:
                    fn.blocks[cur].append(s)
                i += 1
            fn.nlocals = maxl + 1
            fns[name] = fn
        i += 1
    return fns


# ------------------------------------------------------------------------------------------------ engine

BINOPS = {
    "Add", "Sub", "Mul", "Div", "Rem", "BitAnd", "BitOr", "BitXor", "Shl", "Shr", "Eq", "Ne", "Lt", "Le", "Gt", "Ge",
    "AddWithOverflow", "SubWithOverflow", "MulWithOverflow", "AddUnchecked", "SubUnchecked", "MulUnchecked",
}

INT_RE = re.compile(r"^(-?\d+)_(u8|u16|u32|u64|u128|usize|i8|i16|i32|i64|i128|isize)$")
WIDTH = {"u8": 8, "u16": 16, "u32": 32, "u64": 64, "u128": 128, "usize": 64, "i8": 8, "i16": 16, "i32": 32, "i64": 64, "i128": 128, "isize": 64}


class Frame:
    def __init__(self, fn):
        self.fn = fn
        self.locals = [None] * (fn.nlocals + 1)
        self.signed = {}


class Engine:
    def __init__(self, fns, builtins, timeout_ms=20000):
        self.fns = fns
        self.builtins = builtins  # list of (regex, handler(engine, callee, args) -> value)
        self.timeout_ms = timeout_ms
        self.stats = {"paths": 0, "queries": 0, "solver_s": 0.0, "fn_calls": {}, "builtin_calls": {}, "mir_steps": 0}
        self.reset([])

    # ---- path management
    def reset(self, prefix):
        self.prefix = list(prefix)
        self.trail = []
        self.solver = z3.Solver()
        self.solver.set("timeout", self.timeout_ms)
        self.pc = []
        self.depth = 0
        self.pending = []
        self.witness = set()

    def _check(self, extra):
        t = time.time()
        self.solver.push()
        self.solver.add(extra)
        r = self.solver.check()
        self.solver.pop()
        self.stats["queries"] += 1
        self.stats["solver_s"] += time.time() - t
        if r == z3.unknown:
            raise Unsupported("solver returned unknown: " + self.solver.reason_unknown())
        return r == z3.sat

    def assume(self, c):
        c = z3.simplify(c) if z3.is_expr(c) else z3.BoolVal(bool(c))
        if z3.is_false(c):
            raise Infeasible()
        if not z3.is_true(c):
            self.solver.add(c)
            self.pc.append(c)
            if not self._check(z3.BoolVal(True)):
                raise Infeasible()

    def branch(self, c):
        """decide a condition on this path; forks (by re-execution) when both outcomes are feasible"""
        if isinstance(c, bool):
            return c
        c = z3.simplify(c)
        if z3.is_true(c):
            return True
        if z3.is_false(c):
            return False
        k = len(self.trail)
        if k < len(self.prefix):
            v = self.prefix[k]
        else:
            ft = self._check(c)
            ff = self._check(z3.Not(c))
            if ft and ff:
                self.pending.append(self.trail + [False])
                v = True
            elif ft:
                v = True
            elif ff:
                v = False
            else:
                raise Infeasible()
        self.trail.append(v)
        a = c if v else z3.Not(c)
        self.solver.add(a)
        self.pc.append(a)
        return v

    def concretize(self, e, lo, hi):
        """value of a bit-vector expression known to lie in lo..hi-1 on this path (forks per value); None = outside"""
        e = z3.simplify(e)
        if z3.is_bv_value(e):
            v = e.as_long()
            return v if lo <= v < hi else None
        for v in range(lo, hi):
            if self.branch(e == bv(v, e.size())):
                return v
        return None

    def check(self, cond, msg):
        """harness-level assertion: must hold for every model of the path condition"""
        if isinstance(cond, bool):
            cond = z3.BoolVal(cond)
        cond = z3.simplify(cond)
        if z3.is_true(cond):
            return
        t = time.time()
        self.solver.push()
        self.solver.add(z3.Not(cond))
        r = self.solver.check()
        self.stats["queries"] += 1
        m = self.solver.model() if r == z3.sat else None
        self.solver.pop()
        self.stats["solver_s"] += time.time() - t
        if r == z3.unknown:
            raise Unsupported("solver returned unknown on an assertion")
        if r == z3.sat:
            raise Violation(msg, m)

    def model(self):
        if self.solver.check() != z3.sat:
            raise Infeasible()
        return self.solver.model()

    # ---- function lookup
    def find_fn(self, type_name, method, closure_id=None):
        if closure_id is not None:
            for f in self.fns.values():
                if "{closure#" in f.name and f.params and closure_id in f.params[0][1]:
                    return f
            return None
        cands = [f for n, f in self.fns.items() if n.endswith("::" + method) and "{closure#" not in n.rsplit("::", 1)[-1]]
        if type_name:
            tn = re.sub(r"<.*", "", type_name).split("::")[-1]
            c2 = [f for f in cands if re.search(r"\b" + re.escape(tn) + r"\b", f.sig.split(f.name, 1)[-1])]
            if c2:
                cands = c2
            else:
                return None
        return cands[0] if len(cands) == 1 else None

    # ---- calls
    def call_fn(self, fn, args):
        self.stats["fn_calls"][fn.name] = self.stats["fn_calls"].get(fn.name, 0) + 1
        self.depth += 1
        if self.depth > 40:
            raise Unsupported("call depth")
        fr = Frame(fn)
        if len(args) != len(fn.params):
            raise Unsupported(f"arity mismatch calling {fn.name}")
        for (idx, ty), a in zip(fn.params, args):
            fr.locals[idx] = a
        bb = 0
        steps = 0
        while True:
            steps += 1
            if steps > 5000:
                raise Unsupported("block budget exceeded (loop?) in " + fn.name)
            blk = fn.blocks[bb]
            for st in blk[:-1]:
                self.exec_stmt(fr, st)
                self.stats["mir_steps"] += 1
            nxt = self.exec_term(fr, blk[-1])
            if nxt is None:
                self.depth -= 1
                return fr.locals[0] if fr.locals[0] is not None else UNIT
            bb = nxt

    def call_named(self, callee, args):
        """callee = pretty-printed path at a call site"""
        for rx, h in self.builtins:
            if rx.search(callee):
                self.stats["builtin_calls"][rx.pattern] = self.stats["builtin_calls"].get(rx.pattern, 0) + 1
                return h(self, callee, args)
        m = re.match(r"^<(.+?) as .+>::(\w+)(?:::<.*>)?$", callee) or re.match(r"^(?:.*::)?(\w+)(?:::<[^>]*>)?::(\w+)(?:::<.*>)?$", callee)
        if m:
            f = self.find_fn(m.group(1), m.group(2))
            if f:
                return self.call_fn(f, args)
        raise Unsupported("call to a function that is neither in the MIR dump nor modelled: " + callee)

    def call_closure(self, clo, args):
        if not (isinstance(clo, Agg) and clo.kind.startswith("closure:")):
            raise Unsupported("callable is not a closure value")
        f = self.find_fn(None, None, closure_id=clo.kind[len("closure:"):])
        if not f:
            raise Unsupported("closure body not found: " + clo.kind)
        first = f.params[0][1]
        self_arg = Ref(Loc([clo], 0)) if first.startswith("&") else clo
        return self.call_fn(f, [self_arg] + list(args))

    # ---- places / operands
    def place(self, fr, s):
        s = s.strip()
        m = re.match(r"^_(\d+)$", s)
        if m:
            return Loc(fr.locals, int(m.group(1)))
        if s.endswith("]") and not s.startswith("["):
            k = s.rfind("[")
            base = self.place(fr, s[:k])
            idx = s[k + 1 : -1]
            cont = base if isinstance(base, SliceRef) else base.load()
            mi = re.match(r"^_(\d+)$", idx)
            if mi:
                iv = fr.locals[int(mi.group(1))]
            else:
                mc = re.match(r"^(\d+) of \d+$", idx)
                if not mc:
                    raise Unsupported("index projection " + s)
                iv = bv(int(mc.group(1)))
            return self.index(cont, iv)
        if s.startswith("(*") and _match_paren(s, 0) == len(s) - 1:
            inner = self.place(fr, s[2:-1])
            v = inner.load() if isinstance(inner, Loc) else inner
            if isinstance(v, Ref):
                return v.loc
            if isinstance(v, SliceRef):
                return v
            raise Unsupported(f"deref of non-reference {v!r} in {s}")
        if s.startswith("(") and _match_paren(s, 0) == len(s) - 1:
            body = s[1:-1]
            # (P as Variant)
            m = re.match(r"^(.*) as (\w+)$", body)
            if m and ":" not in body[len(m.group(1)) :]:
                return self.place(fr, m.group(1))
            # (P.k: T)
            # find the ".k: " that follows the base place (base has balanced parens)
            if body.startswith("("):
                e = _match_paren(body, 0)
                base, rest = body[: e + 1], body[e + 1 :]
            else:
                m = re.match(r"^(_\d+)(.*)$", body, re.S)
                base, rest = m.group(1), m.group(2)
            m = re.match(r"^\.(\d+): ", rest)
            if not m:
                raise Unsupported("place " + s)
            loc = self.place(fr, base)
            v = loc.load()
            if isinstance(v, Ref) or v is None:
                raise Unsupported(f"field of non-aggregate in {s}: {v!r}")
            if not isinstance(v, Agg):
                raise Unsupported(f"field projection on a modelled scalar/opaque value in {s}: {v!r}")
            k = int(m.group(1))
            while len(v.f) <= k:
                v.f.append(None)
            return Loc(v.f, k)
        raise Unsupported("place " + s)

    def index(self, cont, iv):
        if isinstance(cont, VecObj):
            items, start, n = cont.items, 0, len(cont.items)
        elif isinstance(cont, SliceRef):
            items, start, n = cont.items, cont.start, cont.n
        elif isinstance(cont, Agg) and cont.kind == "array":
            items, start, n = cont.f, 0, len(cont.f)
        else:
            raise Unsupported(f"indexing {cont!r}")
        k = self.concretize(iv, 0, n)
        if k is None:
            raise Panic("index out of bounds")
        return Loc(items, start + k)

    def const(self, s):
        s = s.strip()
        if s in ("true", "false"):
            return z3.BoolVal(s == "true")
        m = INT_RE.match(s)
        if m:
            return z3.BitVecVal(int(m.group(1)), WIDTH[m.group(2)])
        if s == "()":
            return UNIT
        m = re.match(r"^ZeroSized: \{closure@(.*)\}$", s)
        if m:
            return Agg("closure:" + m.group(1), [])
        if s.startswith("ZeroSized"):
            return Opaque(s)
        if s.startswith('"') or s.startswith("b\""):
            return Opaque(s)
        m = re.match(r"^(?:[\w:<>{}# ]+::)?([A-Z][A-Z0-9_]*)$", s)
        if m and m.group(1) in self.named_consts:
            return self.named_consts[m.group(1)]
        raise Unsupported("constant " + s)

    named_consts = {}

    def operand(self, fr, s):
        s = s.strip()
        if s.startswith("no_retag "):
            s = s[9:]
        if s.startswith("copy "):
            return clone(self.load_place(fr, s[5:]))
        if s.startswith("move "):
            return clone(self.load_place(fr, s[5:]))
        if s.startswith("const "):
            return self.const(s[6:])
        raise Unsupported("operand " + s)

    def load_place(self, fr, s):
        loc = self.place(fr, s)
        if isinstance(loc, SliceRef):
            return loc
        v = loc.load()
        if v is None:
            raise Unsupported("read of an uninitialised place " + s)
        return v

    # ---- statements
    def exec_stmt(self, fr, st):
        if st.startswith(("StorageLive", "StorageDead", "nop", "FakeRead", "PlaceMention", "Retag", "AscribeUserType", "Coverage", "ConstEvalCounter", "//")):
            return
        if not st.endswith(";"):
            raise Unsupported("statement " + st)
        st = st[:-1]
        m = re.match(r"^discriminant\((.*)\) = (\d+)$", st)
        if m:
            v = self.place(fr, m.group(1)).load()
            v.tag = int(m.group(2))
            return
        if st.startswith("Deinit("):
            return
        eq = self._find_assign(st)
        lhs, rhs = st[:eq].strip(), st[eq + 3 :].strip()
        val = self.rvalue(fr, rhs)
        loc = self.place(fr, lhs)
        if isinstance(loc, SliceRef):
            raise Unsupported("store through a slice " + st)
        loc.store(val)

    @staticmethod
    def _find_assign(st):
        d = 0
        for k, ch in enumerate(st):
            if ch in "([{":
                d += 1
            elif ch in ")]}":
                d -= 1
            elif d == 0 and st[k : k + 3] == " = ":
                return k
        raise Unsupported("statement " + st)

    def rvalue(self, fr, s):
        s = s.strip()
        if s.startswith("no_retag "):
            s = s[9:]
        if s.startswith(("copy ", "move ", "const ")):
            # `x as T (Kind)` casts
            m = re.match(r"^(.*) as ([\w:<>*& ]+) \((\w+)(?:\(.*\))?\)$", s)
            if m and self._top_level_as(s):
                return self.cast(self.operand(fr, m.group(1)), m.group(2), m.group(3))
            return self.operand(fr, s)
        if s.startswith("&raw "):
            raise Unsupported("raw pointer " + s)
        if s.startswith("&"):
            p = re.sub(r"^&(mut |fake shallow |fake |)", "", s)
            loc = self.place(fr, p)
            return loc if isinstance(loc, SliceRef) else Ref(loc)
        m = re.match(r"^(\w+)\((.*)\)$", s, re.S)
        if m and m.group(1) in BINOPS:
            a, b = split_top(m.group(2))
            return self.binop(m.group(1), self.operand(fr, a), self.operand(fr, b))
        if m and m.group(1) == "Not":
            v = self.operand(fr, m.group(2))
            return z3.Not(v) if z3.is_bool(v) else ~v
        if m and m.group(1) == "Neg":
            return -self.operand(fr, m.group(2))
        if m and m.group(1) == "PtrMetadata":
            v = self.operand(fr, m.group(2))
            if isinstance(v, SliceRef):
                return bv(v.n)
            raise Unsupported("PtrMetadata of " + repr(v))
        if m and m.group(1) == "discriminant":
            v = self.load_place(fr, m.group(2))
            if not isinstance(v, Agg) or v.tag is None:
                raise Unsupported("discriminant of " + repr(v))
            return bv(v.tag) if isinstance(v.tag, int) else v.tag
        if m and m.group(1) == "CopyForDeref":
            return clone(self.load_place(fr, m.group(2)))
        if s == "()":
            return UNIT
        if s.startswith("(") and _match_paren(s, 0) == len(s) - 1:
            return Agg("tuple", [self.operand(fr, x) for x in split_top(s[1:-1])])
        if s.startswith("[") and s.endswith("]"):
            body = s[1:-1]
            parts = split_top(body, ";")
            if len(parts) == 2:
                n = int(re.match(r"(?:const )?(\d+)", parts[1]).group(1))
                v = self.operand(fr, parts[0])
                return Agg("array", [clone(v) for _ in range(n)])
            return Agg("array", [self.operand(fr, x) for x in split_top(body)])
        m = re.match(r"^\{closure@(.*?)\} \{(.*)\}$", s, re.S)
        if m:
            fs = [self.operand(fr, x.split(": ", 1)[1]) for x in split_top(m.group(2))]
            return Agg("closure:" + m.group(1), fs)
        # ADT aggregates
        m = re.match(r"^([\w:<>(), &'\[\]]+?) \{(.*)\}$", s, re.S)
        if m:
            names, fs = [], []
            for x in split_top(m.group(2)):
                n, o = x.split(": ", 1)
                names.append(n.strip())
                fs.append(self.operand(fr, o))
            path = m.group(1)
            return Agg(self._adt_kind(path), fs, self._variant_tag(path), names)
        m = re.match(r"^([\w:<>, &'\[\]()]+?)::(\w+)\((.*)\)$", s, re.S)
        if m and m.group(2)[0].isupper():
            fs = [self.operand(fr, x) for x in split_top(m.group(3))]
            path = m.group(1) + "::" + m.group(2)
            return Agg(self._adt_kind(path), fs, self._variant_tag(path))
        m = re.match(r"^([\w:<>, &'\[\]()]+?)::(\w+)$", s)
        if m and m.group(2)[0].isupper():
            path = s
            return Agg(self._adt_kind(path), [], self._variant_tag(path))
        raise Unsupported("rvalue " + s)

    @staticmethod
    def _top_level_as(s):
        return re.search(r"\) as |\d as |_\d+ as |\w as ", s) is not None

    VARIANTS = {"None": 0, "Some": 1, "Ok": 0, "Err": 1, "Less": -1, "Equal": 0, "Greater": 1}

    def _adt_kind(self, path):
        segs = re.sub(r"<[^<>]*(<[^<>]*(<[^<>]*>[^<>]*)*>[^<>]*)*>", "", path).replace("::::", "::").split("::")
        segs = [x for x in segs if x]
        if segs[-1] in self.VARIANTS and len(segs) >= 2:
            return segs[-2]
        return segs[-1]

    def _variant_tag(self, path):
        last = path.rsplit("::", 1)[-1]
        return self.VARIANTS.get(last)

    def cast(self, v, ty, kind):
        ty = ty.strip()
        if kind == "IntToInt" and ty in WIDTH:
            w = WIDTH[ty]
            if z3.is_bool(v):
                return z3.If(v, z3.BitVecVal(1, w), z3.BitVecVal(0, w))
            if v.size() == w:
                return v
            if v.size() > w:
                return z3.Extract(w - 1, 0, v)
            return z3.ZeroExt(w - v.size(), v)  # sources in scope are unsigned
        if kind in ("PointerCoercion", "Unsize", "Transmute", "PtrToPtr"):
            if isinstance(v, Ref) and isinstance(v.loc.load(), Agg) and v.loc.load().kind == "array":
                a = v.loc.load()
                return SliceRef(a.f, 0, len(a.f))
            return v
        raise Unsupported(f"cast {kind} to {ty}")

    def binop(self, op, a, b):
        if op in ("Eq", "Ne") and z3.is_bool(a):
            r = a == b
            return r if op == "Eq" else z3.Not(r)
        if not (z3.is_bv(a) and z3.is_bv(b)):
            raise Unsupported(f"binop {op} on {a!r}, {b!r}")
        # unsigned semantics (the code in scope uses usize / u64 only)
        if op == "Eq":
            return a == b
        if op == "Ne":
            return a != b
        if op == "Lt":
            return z3.ULT(a, b)
        if op == "Le":
            return z3.ULE(a, b)
        if op == "Gt":
            return z3.UGT(a, b)
        if op == "Ge":
            return z3.UGE(a, b)
        if op in ("Add", "AddUnchecked"):
            return a + b
        if op in ("Sub", "SubUnchecked"):
            return a - b
        if op in ("Mul", "MulUnchecked"):
            return a * b
        if op == "Div":
            return z3.UDiv(a, b)
        if op == "Rem":
            return z3.URem(a, b)
        if op == "BitAnd":
            return a & b
        if op == "BitOr":
            return a | b
        if op == "BitXor":
            return a ^ b
        if op == "Shl":
            return a << b
        if op == "Shr":
            return z3.LShR(a, b)
        if op == "AddWithOverflow":
            return Agg("tuple", [a + b, z3.Not(z3.BVAddNoOverflow(a, b, False))])
        if op == "SubWithOverflow":
            return Agg("tuple", [a - b, z3.ULT(a, b)])
        if op == "MulWithOverflow":
            return Agg("tuple", [a * b, z3.Not(z3.BVMulNoOverflow(a, b, False))])
        raise Unsupported("binop " + op)

    # ---- terminators
    def exec_term(self, fr, t):
        t = t.rstrip(";")
        if t == "return":
            return None
        m = re.match(r"^goto -> bb(\d+)$", t)
        if m:
            return int(m.group(1))
        if t in ("unreachable", "resume", "abort"):
            raise Unsupported("terminator " + t)
        m = re.match(r"^switchInt\((.*)\) -> \[(.*)\]$", t)
        if m:
            v = self.operand(fr, m.group(1))
            if z3.is_bool(v):
                v = z3.If(v, bv(1, 8), bv(0, 8))
            targets = m.group(2).split(", ")
            for tg in targets:
                k, b = tg.split(": ")
                if k == "otherwise":
                    return int(b[2:])
                if self.branch(v == z3.BitVecVal(int(k), v.size())):
                    return int(b[2:])
            raise Unsupported("switchInt without a taken target")
        m = re.match(r"^assert\((!?)(.*?), \"(.*)\) -> \[success: bb(\d+), unwind.*\]$", t)
        if m:
            c = self.operand(fr, m.group(2))
            if m.group(1):
                c = z3.Not(c)
            if self.branch(c):
                return int(m.group(4))
            raise Panic("MIR assert failed: " + m.group(3).split('"')[0])
        m = re.match(r"^drop\((.*)\) -> \[return: bb(\d+), unwind.*\]$", t)
        if m:
            return int(m.group(2))
        # calls
        m = re.match(r"^(.*?) -> \[return: bb(\d+), unwind.*\]$", t) or re.match(r"^(.*?) -> (unwind .*)$", t)
        if m:
            body = m.group(1)
            ret_bb = int(m.group(2)) if m.group(2).isdigit() else None
            eq = self._find_assign(body)
            lhs, call = body[:eq].strip(), body[eq + 3 :].strip()
            if not call.endswith(")"):
                raise Unsupported("call " + t)
            # matching '(' of the final ')'
            d = 0
            k = len(call) - 1
            while k >= 0:
                if call[k] == ")":
                    d += 1
                elif call[k] == "(":
                    d -= 1
                    if d == 0:
                        break
                k -= 1
            callee = call[:k]
            args_s = split_top(call[k + 1 : -1])
            if callee.startswith(("move _", "copy _")):
                raise Unsupported("indirect call " + t)
            args = [self.operand(fr, a) for a in args_s]
            val = self.call_named(callee, args)
            if ret_bb is None:
                raise Unsupported("diverging call returned: " + callee)
            loc = self.place(fr, lhs)
            loc.store(val if val is not None else UNIT)
            return ret_bb
        raise Unsupported("terminator " + t)


# ------------------------------------------------------------------------------------------------ exploration


def explore(engine, harness, max_paths=200000, deadline=None):
    """Run `harness(engine)` on every feasible path. Returns (paths, violation|None, panics)."""
    work = [[]]
    paths = 0
    while work:
        if paths >= max_paths:
            raise Unsupported(f"more than {max_paths} paths")
        if deadline and time.time() > deadline:
            raise Unsupported("time limit for the exploration reached")
        prefix = work.pop()
        engine.reset(prefix)
        try:
            harness(engine)
            paths += 1
        except Infeasible:
            pass
        except Violation as v:
            engine.stats["paths"] += paths + 1
            return paths + 1, v
        work.extend(engine.pending)
    engine.stats["paths"] += paths
    return paths, None
