"""Assumptions of the std / shuttle-engine models in mir_builtins.py (importable without z3)."""
ASSUMPTIONS = [
    "std models (hand-written, not derived from std's source): Vec::{new,len,push,pop,clear,truncate,is_empty,drain(start..)}, "
    "Vec/slice indexing by usize and by RangeFrom (out of range = panic), slice::{iter,first,last,len}, "
    "slice::Iter::{any,all,position,rposition,next} (short-circuit, closure bodies executed from their MIR), "
    "Option::{unwrap,expect,map,map_or,unwrap_or,is_some,is_none,is_some_and,is_none_or}; panicking entry points end the path as a panic",
    "Vec::drain(start..) removes the tail at the call (the Drain value is dropped without being iterated)",
    "shuttle-engine models: Task is represented by its id (Task::id returns it), TaskId is a usize with derived equality, "
    "Schedule::new(seed) is an empty schedule carrying the seed",
    "FixedDataSource is an abstract rewindable stream: reinitialize() rewinds and reports a function of the seed, next_u64() "
    "returns stream(seed, position) and advances; that the real FixedDataSource behaves like this is decided by the Kani "
    "harness c09_fixed_data_source_rewinds of the same check",
    "integers are 64-bit bit-vectors with wrapping arithmetic; MIR overflow assertions (overflow-checks=on) are executed",
]
