"""Hand-written models of the std / shuttle-engine functions that the MIR of shuttle-schedulers calls.
Every entry is an assumption of the claims built on it (listed in the evidence files)."""
import re

import z3

from mirsym import Agg, Loc, MapObj, Opaque, Panic, Ref, SliceRef, UNIT, Unsupported, VecObj, bv, clone, none, some

STREAM = z3.Function("data_stream", z3.BitVecSort(64), z3.BitVecSort(64), z3.BitVecSort(64))
SEEDFN = z3.Function("reported_seed", z3.BitVecSort(64), z3.BitVecSort(64))


def deref(v):
    return v.loc.load() if isinstance(v, Ref) else v


def as_slice(v):
    v = deref(v) if isinstance(v, Ref) else v
    if isinstance(v, SliceRef):
        return v
    if isinstance(v, VecObj):
        return SliceRef(v.items, 0, len(v.items))
    raise Unsupported(f"not a slice: {v!r}")


def b_vec_new(e, c, a):
    return VecObj()


def b_vec_len(e, c, a):
    return bv(len(deref(a[0]).items))


def b_vec_push(e, c, a):
    deref(a[0]).items.append(a[1])
    return UNIT


def b_vec_pop(e, c, a):
    v = deref(a[0])
    return some(v.items.pop()) if v.items else none()


def b_vec_clear(e, c, a):
    deref(a[0]).items.clear()
    return UNIT


def b_vec_truncate(e, c, a):
    v = deref(a[0])
    n = len(v.items)
    k = e.concretize(a[1], 0, n + 1)
    if k is not None:
        del v.items[k:]
    return UNIT


def b_vec_drain_from(e, c, a):
    """Vec::drain(start..): the elements are gone when the Drain is dropped; the vector is mutably borrowed until
    then, so removing them at once is unobservable. Iterating the Drain is not modelled."""
    v = deref(a[0])
    n = len(v.items)
    start = a[1].f[0]
    k = e.concretize(start, 0, n + 1)
    if k is None:
        raise Panic("drain: range start out of bounds")
    removed = v.items[k:]
    del v.items[k:]
    return Opaque(("Drain", len(removed)))


def b_index_usize(e, c, a):
    return Ref(e.index(deref(a[0]), a[1]))


def b_index_range_from(e, c, a):
    s = as_slice(a[0])
    k = e.concretize(a[1].f[0], 0, s.n + 1)
    if k is None:
        raise Panic("slice start index out of range")
    return SliceRef(s.items, s.start + k, s.n - k)


def b_slice_iter(e, c, a):
    s = as_slice(a[0])
    return Agg("SliceIter", [s, 0])


def b_slice_first(e, c, a):
    s = as_slice(a[0])
    return some(Ref(Loc(s.items, s.start))) if s.n > 0 else none()


def b_slice_last(e, c, a):
    s = as_slice(a[0])
    return some(Ref(Loc(s.items, s.start + s.n - 1))) if s.n > 0 else none()


def b_slice_len(e, c, a):
    return bv(as_slice(a[0]).n)


def b_slice_is_empty(e, c, a):
    return z3.BoolVal(as_slice(a[0]).n == 0)


def _iter_elems(it):
    it = deref(it)
    if not (isinstance(it, Agg) and it.kind == "SliceIter"):
        raise Unsupported(f"iterator {it!r}")
    s, pos = it.f
    return it, [Loc(s.items, s.start + i) for i in range(pos, s.n)]


def b_iter_any(e, c, a):
    it, locs = _iter_elems(a[0])
    for k, l in enumerate(locs):
        r = e.call_closure(a[1], [Ref(l)])
        it.f[1] += 1
        if e.branch(r):
            return z3.BoolVal(True)
    return z3.BoolVal(False)


def b_iter_all(e, c, a):
    it, locs = _iter_elems(a[0])
    for k, l in enumerate(locs):
        r = e.call_closure(a[1], [Ref(l)])
        it.f[1] += 1
        if not e.branch(r):
            return z3.BoolVal(False)
    return z3.BoolVal(True)


def b_iter_position(e, c, a):
    it, locs = _iter_elems(a[0])
    for k, l in enumerate(locs):
        r = e.call_closure(a[1], [Ref(l)])
        it.f[1] += 1
        if e.branch(r):
            return some(bv(k))
    return none()


def b_iter_rposition(e, c, a):
    it, locs = _iter_elems(a[0])
    for k in range(len(locs) - 1, -1, -1):
        r = e.call_closure(a[1], [Ref(locs[k])])
        if e.branch(r):
            return some(bv(k))
    return none()


def b_iter_rev_find_etc(e, c, a):
    raise Unsupported("iterator adaptor " + c)


def b_opt_is_some_and(e, c, a):
    v = a[0]
    if _tag_is(e, v, 1):
        return e.call_closure(a[1], [v.f[0]])
    return z3.BoolVal(False)


def b_opt_is_none_or(e, c, a):
    v = a[0]
    if _tag_is(e, v, 1):
        return e.call_closure(a[1], [v.f[0]])
    return z3.BoolVal(True)


def b_opt_map_or(e, c, a):
    v = a[0]
    if _tag_is(e, v, 1):
        return e.call_closure(a[2], [v.f[0]])
    return a[1]


def b_iter_next(e, c, a):
    it, locs = _iter_elems(a[0])
    if not locs:
        return none()
    it.f[1] += 1
    return some(Ref(locs[0]))


def _tag_is(e, v, k):
    if isinstance(v.tag, int):
        return v.tag == k
    return e.branch(v.tag == bv(k, v.tag.size()))


def b_opt_unwrap(e, c, a):
    v = a[0]
    if _tag_is(e, v, 1):
        return v.f[0]
    raise Panic("called `Option::unwrap()` / `expect()` on a `None` value")


def b_opt_map(e, c, a):
    v = a[0]
    if _tag_is(e, v, 1):
        return some(e.call_closure(a[1], [v.f[0]]))
    return none()


def b_opt_unwrap_or(e, c, a):
    v = a[0]
    return v.f[0] if _tag_is(e, v, 1) else a[1]


def b_opt_is_some(e, c, a):
    v = deref(a[0])
    return z3.BoolVal(True) if _tag_is(e, v, 1) else z3.BoolVal(False)


def b_opt_is_none(e, c, a):
    v = deref(a[0])
    return z3.BoolVal(False) if _tag_is(e, v, 1) else z3.BoolVal(True)


def b_task_id(e, c, a):
    t = deref(a[0])
    while isinstance(t, Ref):
        t = deref(t)
    if not (isinstance(t, Agg) and t.kind == "Task"):
        raise Unsupported(f"Task::id on {t!r}")
    return t.f[0]


def b_taskid_eq(e, c, a):
    x, y = deref(a[0]), deref(a[1])
    return x == y


def b_taskid_ne(e, c, a):
    return z3.Not(b_taskid_eq(e, c, a))


def b_taskid_from(e, c, a):
    return a[0]


def b_panic(e, c, a):
    msg = ""
    for x in a:
        if isinstance(x, Opaque):
            msg = str(x.what)
    raise Panic(f"{c.split('::')[-1]} {msg}"[:200])


def b_opaque(e, c, a):
    return a[0] if a and isinstance(a[0], Opaque) else Opaque(c)


# FixedDataSource as an abstract stream: value = (seed, position); `reinitialize` rewinds; see DESIGN.md 3 C09.
def b_fds_initialize(e, c, a):
    return Agg("FixedDataSource", [a[0], bv(0)])


def b_fds_reinitialize(e, c, a):
    d = deref(a[0])
    d.f[1] = bv(0)
    e.witness.add("data source rewound")
    return SEEDFN(d.f[0])


def b_fds_next(e, c, a):
    d = deref(a[0])
    r = STREAM(d.f[0], d.f[1])
    d.f[1] = z3.simplify(d.f[1] + 1)
    return r


def b_schedule_new(e, c, a):
    return Agg("Schedule", [a[0], VecObj()], None, ["seed", "steps"])


def b_clone(e, c, a):
    return clone(deref(a[0]))


BUILTINS = [
    (r"^Vec::<.*>::new$", b_vec_new),
    (r"^Vec::<.*>::len$", b_vec_len),
    (r"^Vec::<.*>::push$", b_vec_push),
    (r"^Vec::<.*>::pop$", b_vec_pop),
    (r"^Vec::<.*>::clear$", b_vec_clear),
    (r"^Vec::<.*>::truncate$", b_vec_truncate),
    (r"^Vec::<.*>::is_empty$", lambda e, c, a: z3.BoolVal(len(deref(a[0]).items) == 0)),
    (r"^Vec::<.*>::drain::<(std::ops::)?RangeFrom<usize>>$", b_vec_drain_from),
    (r"^<Vec<.*> as Index(Mut)?<usize>>::index(_mut)?$", b_index_usize),
    (r"^<Vec<.*> as Index(Mut)?<(std::ops::)?RangeFrom<usize>>>::index(_mut)?$", b_index_range_from),
    (r"^<Vec<.*> as Deref(Mut)?>::deref(_mut)?$", lambda e, c, a: as_slice(a[0])),
    (r"^core::slice::<impl \[.*\]>::iter$", b_slice_iter),
    (r"^core::slice::<impl \[.*\]>::first$", b_slice_first),
    (r"^core::slice::<impl \[.*\]>::last$", b_slice_last),
    (r"^core::slice::<impl \[.*\]>::len$", b_slice_len),
    (r"^core::slice::<impl \[.*\]>::is_empty$", b_slice_is_empty),
    (r"^<std::slice::Iter<.*> as Iterator>::any::<", b_iter_any),
    (r"^<std::slice::Iter<.*> as Iterator>::all::<", b_iter_all),
    (r"^<std::slice::Iter<.*> as Iterator>::position::<", b_iter_position),
    (r"^<std::slice::Iter<.*> as Iterator>::next$", b_iter_next),
    (r"^<std::slice::Iter<.*> as Iterator>::rposition::<", b_iter_rposition),
    (r"^Option::<.*>::is_some_and::<", b_opt_is_some_and),
    (r"^Option::<.*>::is_none_or::<", b_opt_is_none_or),
    (r"^Option::<.*>::map_or::<", b_opt_map_or),
    (r"^Option::<.*>::(unwrap|expect)$", b_opt_unwrap),
    (r"^Option::<.*>::map::<", b_opt_map),
    (r"^Option::<.*>::unwrap_or$", b_opt_unwrap_or),
    (r"^Option::<.*>::is_some$", b_opt_is_some),
    (r"^Option::<.*>::is_none$", b_opt_is_none),
    (r"(^|::)Task::id$", b_task_id),
    (r"^<TaskId as PartialEq>::eq$", b_taskid_eq),
    (r"^<TaskId as PartialEq>::ne$", b_taskid_ne),
    (r"^<TaskId as From<usize>>::from$", b_taskid_from),
    (r"^<usize as From<TaskId>>::from$", b_taskid_from),
    (r"^<TaskId as Clone>::clone$", b_clone),
    (r"^(core::panicking::|std::rt::panic_fmt|std::rt::begin_panic|core::option::unwrap_failed|core::option::expect_failed)", b_panic),
    (r"^Arguments::<'_>::(from_str|new_const|new_v1|new)", b_opaque),
    (r"^<FixedDataSource as DataSource>::initialize$", b_fds_initialize),
    (r"^<FixedDataSource as DataSource>::reinitialize$", b_fds_reinitialize),
    (r"^<FixedDataSource as DataSource>::next_u64$", b_fds_next),
    (r"(^|::)Schedule::new$", b_schedule_new),
]
BUILTINS = [(re.compile(r), h) for r, h in BUILTINS]

from mir_builtins_assumptions import ASSUMPTIONS  # noqa: E402,F401
