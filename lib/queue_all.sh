#!/bin/bash
# evidence run for all claimed checks, then evaluation of every seeded change (sequential: they share /repo)
cd /verif
./run_all.sh quick > /tmp/run_all_4.log 2>&1
./lib/eval_seeds.sh > /tmp/eval_seeds2.log 2>&1
