#!/bin/bash
# Evaluate every seeded change: apply, run the check of its property, revert. Sequential (they edit /repo).
cd /verif
for d in seeded/*/; do
  s=$(basename $d); id=${s%%-*}
  [ -f $d/patch.diff ] || continue
  out=$(lib/try_seed.sh /verif/$d/patch.diff $id 2>&1)
  echo "=== $s"; echo "$out"
  echo "$out" > $d/check_output.txt
  cp /tmp/seed-$id.out $d/check_full_output.txt 2>/dev/null
done
cd /repo && git status --short
