//! C15 — vector clock lattice laws (K-pure): all u32 entries, concrete lengths.
#[cfg(not(kani))]
use crate::shim as kani;
use shuttle_engine::runtime::task::clock::VectorClock;
use shuttle_engine::scheduler::TaskId;
use std::cmp::Ordering;

fn any_clock<const L: usize>() -> ([u32; L], VectorClock) {
    let a: [u32; L] = kani::any();
    let c = VectorClock::from(&a);
    (a, c)
}

fn get(a: &[u32], i: usize) -> u32 {
    if i < a.len() { a[i] } else { 0 }
}

/// Reference product order with Shuttle's length rule (a strictly longer clock cannot be <= a shorter one).
fn ref_cmp(a: &[u32], b: &[u32]) -> Option<Ordering> {
    let n = if a.len() < b.len() { a.len() } else { b.len() };
    let mut le = a.len() <= b.len();
    let mut ge = a.len() >= b.len();
    let mut i = 0;
    while i < n {
        if a[i] > b[i] { le = false; }
        if a[i] < b[i] { ge = false; }
        i += 1;
    }
    match (le, ge) {
        (true, true) => Some(Ordering::Equal),
        (true, false) => Some(Ordering::Less),
        (false, true) => Some(Ordering::Greater),
        (false, false) => None,
    }
}

fn laws<const LA: usize, const LB: usize>() {
    let a: [u32; LA] = kani::any();
    let b: [u32; LB] = kani::any();
    laws_on(a, b);
}

fn laws_on<const LA: usize, const LB: usize>(a: [u32; LA], b: [u32; LB]) {
    let ca = VectorClock::from(&a);
    let cb = VectorClock::from(&b);
    // partial_cmp is the product order (with the length rule)
    let got = ca.partial_cmp(&cb);
    assert!(got == ref_cmp(&a, &b), "C15: partial_cmp differs from the product order");
    // antisymmetry / consistency of the two directions
    let rev = cb.partial_cmp(&ca);
    assert!(rev == got.map(|o| o.reverse()), "C15: partial_cmp is not antisymmetric");
    // update = pointwise max with zero extension
    let mut j = ca.clone();
    j.update(&cb);
    let lj = if LA > LB { LA } else { LB };
    assert!(j.time.len() == lj, "C15: join has the wrong length");
    let mut i = 0;
    while i < lj {
        let m = if get(&a, i) > get(&b, i) { get(&a, i) } else { get(&b, i) };
        assert!(j.get(i) == m, "C15: update is not the pointwise maximum");
        i += 1;
    }
    // upper bound
    assert!(ca <= j, "C15: a is not below a join b");
    assert!(cb <= j, "C15: b is not below a join b");
    kani::cover!(got.is_none(), "incomparable clocks");
    kani::cover!(got == Some(Ordering::Less), "a < b");
    kani::cover!(got == Some(Ordering::Equal), "a == b");
    std::mem::forget(ca);
    std::mem::forget(cb);
    std::mem::forget(j);
}

crate::harness! {
    #[kani::unwind(6)]
    fn c15_laws_3_3() { laws::<3, 3>(); }
}
crate::harness! {
    #[kani::unwind(6)]
    fn c15_laws_2_3() { laws::<2, 3>(); }
}
crate::harness! {
    #[kani::unwind(6)]
    fn c15_laws_3_1() { laws::<3, 1>(); }
}
crate::harness! {
    #[kani::unwind(6)]
    fn c15_laws_4_4() { laws::<4, 4>(); }
}

// Concrete probes of the same laws (zero tails, equal clocks, all-zero clocks, crossing entries): on a tree where a
// law fails, the symbolic instances can exhaust the solver's memory (a length that depends on the entries makes
// SmallVec's extend symbolic-sized); these finish in seconds and pin the failure down.
crate::harness! {
    #[kani::unwind(6)]
    fn c15_laws_concrete_probes() {
        laws_on([1, 2], [1, 1, 0]);
        laws_on([0, 0], [0, 0, 0]);
        laws_on([2, 1], [1, 2, 3]);
        laws_on([1, 1, 0], [1, 2]);
        laws_on([0, 0, 1], [5, 5]);
        laws_on([1, 0, 0], [0, 1, 0]);
        laws_on([1, 2, 3], [1, 2, 3]);
        laws_on([7], [0, 0, 0]);
        laws_on([0, 0, 0], [7]);
        laws_on([u32::MAX, 0], [0, u32::MAX]);
    }
}

/// Transitivity and least-upper-bound need three clocks.
fn lub<const L: usize>() {
    let (a, ca) = any_clock::<L>();
    let (b, cb) = any_clock::<L>();
    let (c, cc) = any_clock::<L>();
    // transitivity of <=
    if ca <= cb && cb <= cc {
        assert!(ca <= cc, "C15: <= is not transitive");
    }
    // least upper bound: a <= c and b <= c  =>  a join b <= c
    let mut j = ca.clone();
    j.update(&cb);
    if ca <= cc && cb <= cc {
        assert!(j <= cc, "C15: join is not the least upper bound");
        kani::cover!(true, "common upper bound exists");
    }
    // increment strictly grows the own entry and nothing else
    let k: usize = kani::any();
    kani::assume(k < L);
    kani::assume(a[k] < u32::MAX);
    let mut inc = ca.clone();
    inc.increment(TaskId::from(k));
    assert!(ca < inc, "C15: increment does not strictly advance the clock");
    let mut i = 0;
    while i < L {
        assert!(inc.get(i) == if i == k { a[i] + 1 } else { a[i] });
        i += 1;
    }
    std::mem::forget(ca);
    std::mem::forget(cb);
    std::mem::forget(cc);
    std::mem::forget(j);
    std::mem::forget(inc);
}

crate::harness! {
    #[kani::unwind(6)]
    fn c15_lub_3() { lub::<3>(); }
}
crate::harness! {
    #[kani::unwind(6)]
    fn c15_lub_2() { lub::<2>(); }
}

/// extend(): zero-extends to hold `task_id` and keeps existing entries (target id concrete per call:
/// a symbolic allocation size is outside what the solver can handle).
fn extend_to<const T: usize>() {
    let (a, ca) = any_clock::<2>();
    let mut e = ca.clone();
    e.extend(TaskId::from(T));
    assert!(e.time.len() == T + 1, "C15: extend produced the wrong length");
    let mut i = 0;
    while i <= T {
        assert!(e.get(i) == get(&a, i), "C15: extend changed an entry or did not zero-fill");
        i += 1;
    }
    assert!(ca <= e, "C15: extending a clock moved it backwards");
    std::mem::forget(ca);
    std::mem::forget(e);
}

crate::harness! {
    #[kani::unwind(8)]
    fn c15_extend() {
        extend_to::<2>();
        extend_to::<3>();
        extend_to::<4>();
    }
}

crate::harness! {
    #[kani::unwind(24)]
    fn c15_extend_far() {
        // a task that has not heard of many later tasks (the clock spills out of its inline storage)
        extend_to::<17>();
        extend_to::<20>();
    }
}

// ---- replay restricted to a target clock never drops a step the target depends on -----------------------------

crate::harness! {
    #[kani::unwind(6)]
    fn c15_replay_target_clock_filter() {
        use shuttle_engine::scheduler::data::random::RandomDataSource;
        use shuttle_engine::scheduler::data::DataSource;
        use shuttle_engine::scheduler::{Schedule, ScheduleStep, Scheduler, Task};
        use shuttle_schedulers::ReplayScheduler;
        let (_a0, c0) = any_clock::<2>();
        let (_a1, c1) = any_clock::<2>();
        let (_at, target) = any_clock::<2>();
        let dep0 = c0 <= target;
        let dep1 = c1 <= target;
        let t0 = Task::verif_stub(TaskId::from(0), c0, None);
        let t1 = Task::verif_stub(TaskId::from(1), c1, None);
        // recorded: task 0 steps and draws a random number, then task 1 steps and draws one
        let mut steps = Vec::with_capacity(4);
        steps.push(ScheduleStep::Task(TaskId::from(0)));
        steps.push(ScheduleStep::Random);
        steps.push(ScheduleStep::Task(TaskId::from(1)));
        steps.push(ScheduleStep::Random);
        let mut r = ReplayScheduler::new_from_schedule(Schedule { seed: 9, steps });
        r.set_allow_incomplete();
        r.set_target_clock(target);
        let e = r.new_execution();
        std::mem::forget(e);
        let mut ds = RandomDataSource::initialize(9);
        ds.reinitialize();
        let first_draw = ds.next_u64();
        let second_draw = ds.next_u64();
        let offered: [&Task; 2] = [&t0, &t1];
        let g1 = r.next_task(&offered, None, false);
        if dep0 {
            // the target depends on task 0's step: it must not be dropped
            assert!(g1 == Some(TaskId::from(0)), "C15: replay dropped a step the target clock depends on");
            let d = r.next_u64();
            assert!(d == first_draw, "C15/C01: replayed draw differs from the recorded stream");
            let g2 = r.next_task(&offered, g1, false);
            if dep1 {
                assert!(g2 == Some(TaskId::from(1)), "C15: replay dropped a step the target clock depends on");
                assert!(r.next_u64() == second_draw, "C15/C01: replayed draw differs from the recorded stream");
            } else {
                assert!(g2.is_none(), "C15: replay kept a step that is concurrent with the target");
            }
            kani::cover!(dep1, "both steps kept");
        } else {
            // task 0's step (and the draw it made) is concurrent with the target: skipped
            if dep1 {
                assert!(g1 == Some(TaskId::from(1)), "C15: replay dropped a step the target clock depends on");
                // the skipped step took its draw with it: task 1 gets the value it got in the recording
                assert!(r.next_u64() == second_draw, "C15/C01: a skipped step did not take its random draws with it");
                kani::cover!(true, "first step skipped, second kept");
            } else {
                assert!(g1.is_none(), "C15: replay kept a step that is concurrent with the target");
            }
        }
        std::mem::forget(r);
        std::mem::forget((t0, t1));
    }
}

// ---- the edge every primitive adds: the releaser publishes `increment_clock()`, the acquirer calls
// `update_clock(published)` (real ExecutionState functions on a table of three coroutine-less tasks whose initial
// clocks come from the real spawn inheritance; no scheduling involved) --------------------------------------------

/// Entry `i` of a clock, zero beyond its length (a task's clock is only as long as the task table was at its creation).
fn zget(c: &VectorClock, i: usize) -> u32 {
    if i < c.time.len() { c.get(i) } else { 0 }
}

fn clock_of(t: usize) -> VectorClock {
    shuttle_engine::runtime::execution::ExecutionState::with(|s| s.get_clock(TaskId::from(t)).clone())
}

fn release_acquire_edge<const R: usize, const A: usize, const O: usize>() {
    use shuttle_engine::runtime::execution::ExecutionState;
    use shuttle_engine::Config;
    use std::cell::RefCell;
    use std::rc::Rc;
    let sched: Rc<RefCell<dyn shuttle_engine::scheduler::Scheduler>> = Rc::new(RefCell::new(crate::env::NullSched));
    crate::env::with_state(3, Config::new(), sched, || {
        // some history: every task may have advanced its own clock before
        crate::env::set_current(0);
        if kani::any() { ExecutionState::with(|s| { s.increment_clock(); }); }
        crate::env::set_current(1);
        if kani::any() { ExecutionState::with(|s| { s.increment_clock(); }); }
        crate::env::set_current(2);
        if kani::any() { ExecutionState::with(|s| { s.increment_clock(); }); }
        // release by task R
        crate::env::set_current(R);
        let r_before = clock_of(R);
        let published = ExecutionState::with(|s| s.increment_clock().clone());
        assert!(r_before < published, "C15: a clock-advancing operation did not advance the releasing task's clock");
        assert!(clock_of(R) == published, "C15: the published clock is not the releaser's clock after its operation");
        // acquire by task A
        let a_before = clock_of(A);
        let o_before = clock_of(O);
        crate::env::set_current(A);
        ExecutionState::with(|s| s.update_clock(&published));
        let a_after = clock_of(A);
        assert!(published <= a_after, "C15: the acquiring task's clock does not dominate the releasing task's clock");
        assert!(a_before < a_after, "C15: the acquire did not advance the acquiring task's own clock");
        let mut i = 0;
        while i < 3 {
            let own = if i == A { 1 } else { 0 };
            let m = if zget(&a_before, i) + own > zget(&published, i) { zget(&a_before, i) + own } else { zget(&published, i) };
            assert!(zget(&a_after, i) == m, "C15: the acquirer's clock is not the join of its own advanced clock and the published one");
            i += 1;
        }
        // the bystander learns nothing, and the releaser does not learn about the acquirer
        assert!(clock_of(O) == o_before, "C15: a task that did not take part changed its clock");
        assert!(clock_of(R) == published, "C15: the releaser's clock changed when somebody else acquired");
        assert!(!(a_after <= clock_of(R)), "C15: the releaser appears to have seen the acquire");
        kani::cover!(zget(&a_before, R) < zget(&published, R), "the acquirer learns something new");
        std::mem::forget(r_before);
        std::mem::forget(published);
        std::mem::forget(a_before);
        std::mem::forget(o_before);
        std::mem::forget(a_after);
    });
}

crate::harness! {
    #[kani::unwind(6)]
    fn c15_release_acquire_edge_1_2() { release_acquire_edge::<1, 2, 0>(); }
}
crate::harness! {
    #[kani::unwind(6)]
    fn c15_release_acquire_edge_2_0() { release_acquire_edge::<2, 0, 1>(); }
}
crate::harness! {
    #[kani::unwind(6)]
    fn c15_release_acquire_edge_0_1() { release_acquire_edge::<0, 1, 2>(); }
}
