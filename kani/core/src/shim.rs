//! Native stand-in for the `kani` crate (cfg(not(kani))): lets every harness run as an ordinary
//! program against the real code, with `kani::any()` served either from a recorded counterexample
//! (the byte vectors Kani's concrete playback prints, in call order) or from a seeded PRNG.
//! Used to (1) validate harnesses and oracles natively on many random inputs before trusting a
//! solver verdict, and (2) replay a counterexample before it is reported as a violation.
use std::cell::RefCell;

pub struct AssumeFailed;

pub struct Source {
    /// recorded values (one byte vector per `any()` call) or None for PRNG mode
    pub recorded: Option<Vec<Vec<u8>>>,
    pub pos: usize,
    pub rng: u64,
    pub covers: Vec<&'static str>,
}

thread_local! {
    pub static SRC: RefCell<Source> = RefCell::new(Source { recorded: None, pos: 0, rng: 0x9e3779b97f4a7c15, covers: Vec::new() });
}

pub fn reset(seed: u64, recorded: Option<Vec<Vec<u8>>>) {
    SRC.with(|s| {
        let mut s = s.borrow_mut();
        s.recorded = recorded;
        s.pos = 0;
        s.rng = seed.wrapping_mul(0x9e3779b97f4a7c15) | 1;
        s.covers.clear();
    });
}

fn next_bytes(n: usize) -> Vec<u8> {
    SRC.with(|s| {
        let mut s = s.borrow_mut();
        if let Some(rec) = &s.recorded {
            let v = rec.get(s.pos).cloned().unwrap_or_else(|| vec![0; n]);
            s.pos += 1;
            let mut v = v;
            v.resize(n, 0);
            v
        } else {
            // xorshift64*
            let mut next = |s: &mut Source| {
                let mut x = s.rng;
                x ^= x >> 12;
                x ^= x << 25;
                x ^= x >> 27;
                s.rng = x;
                x.wrapping_mul(0x2545F4914F6CDD1D)
            };
            let r = next(&mut s);
            let mut out = vec![0u8; n];
            if (r & 3) != 0 {
                // bias towards small *values*: they satisfy the harnesses' range assumptions
                out[0] = ((r >> 8) % 8) as u8;
            } else {
                for b in out.iter_mut() {
                    *b = (next(&mut s) >> 24) as u8;
                }
            }
            out
        }
    })
}

pub trait Arbitrary: Sized {
    fn any() -> Self;
    /// Kani 0.68's concrete playback records one byte vector per array element (measured), so arrays are
    /// drawn element by element.
    fn any_array<const N: usize>() -> [Self; N] {
        std::array::from_fn(|_| Self::any())
    }
}
macro_rules! arb_int {
    ($($t:ty),*) => {$(
        impl Arbitrary for $t {
            fn any() -> Self {
                let b = next_bytes(std::mem::size_of::<$t>());
                let mut a = [0u8; std::mem::size_of::<$t>()];
                a.copy_from_slice(&b);
                <$t>::from_le_bytes(a)
            }
        }
    )*};
}
arb_int!(u8, u16, u32, u64, u128, usize, i8, i16, i32, i64, isize);
impl Arbitrary for bool {
    fn any() -> Self {
        next_bytes(1)[0] & 1 == 1
    }
}
impl<T: Arbitrary, const N: usize> Arbitrary for [T; N] {
    fn any() -> Self {
        T::any_array::<N>()
    }
}

pub fn any<T: Arbitrary>() -> T {
    T::any()
}

pub fn assume(c: bool) {
    if !c {
        std::panic::panic_any(AssumeFailed);
    }
}

pub fn cover_hit(msg: &'static str) {
    SRC.with(|s| s.borrow_mut().covers.push(msg));
}

#[macro_export]
macro_rules! __native_cover {
    ($c:expr, $m:expr) => {
        if $c {
            $crate::shim::cover_hit($m);
        }
    };
    ($c:expr) => {
        if $c {
            $crate::shim::cover_hit("cover");
        }
    };
}
pub use crate::__native_cover as cover;
