//! Environment stubs shared by all harnesses (DESIGN.md 2.3). Each is part of every claim.
#![allow(dead_code)]

/// `std::hash::RandomState::new` -> fixed keys (no `getrandom`, no TLS key cache).
pub fn random_state_new() -> std::hash::RandomState {
    // RandomState is { k0: u64, k1: u64 }
    unsafe { std::mem::transmute::<(u64, u64), std::hash::RandomState>((0x0123_4567_89ab_cdef, 0x0f1e_2d3c_4b5a_6978)) }
}

/// `Backtrace::force_capture` is only reached on the error path of `ExecutionState::with` (state not
/// set / already borrowed, which panics right afterwards) or when backtraces are enabled (they are
/// not: `backtrace_enabled` is stubbed to false). Report it and cut the path there, before a
/// `Backtrace` value exists whose drop glue the solver would have to encode at every call site.
pub fn backtrace_force_capture() -> std::backtrace::Backtrace {
    panic!("Backtrace::force_capture reached: ExecutionState::with failed (state not set or already borrowed)")
}

pub fn backtrace_enabled() -> bool {
    false
}

pub fn silence_warnings() -> bool {
    true
}

pub fn seed_from_env(fallback_seed: u64) -> u64 {
    fallback_seed
}

pub fn fmt_format(_args: std::fmt::Arguments<'_>) -> String {
    String::new()
}

pub fn thread_panicking() -> bool {
    false
}

// ---- std::task::Waker: direct calls instead of vtable function pointers ---------------------------
// CBMC resolves a call through a plain function pointer loaded from memory to *every* address-taken
// function of a compatible signature (hashbrown's type-erased element destructors among them),
// which multiplies the formula. Every waker in these harnesses is a Shuttle task waker, so the
// dispatch is replaced by what Shuttle's vtable does (shuttle_engine::runtime::task::waker).

pub fn waker_wake(w: std::task::Waker) {
    let id = w.data() as usize;
    std::mem::forget(w);
    shuttle_engine::runtime::task::waker::verif_wake(shuttle_engine::scheduler::TaskId::from(id));
}

pub fn waker_wake_by_ref(w: &std::task::Waker) {
    let id = w.data() as usize;
    shuttle_engine::runtime::task::waker::verif_wake(shuttle_engine::scheduler::TaskId::from(id));
}

pub fn waker_clone(w: &std::task::Waker) -> std::task::Waker {
    shuttle_engine::runtime::task::waker::make_waker(shuttle_engine::scheduler::TaskId::from(w.data() as usize))
}

pub fn waker_drop(_w: &mut std::task::Waker) {}

/// `std::sync::Mutex::lock` without the futex slow path: a contended std mutex in a single-threaded
/// harness can never be released, so it is reported instead of spun on.
pub fn std_mutex_lock<T: ?Sized>(m: &std::sync::Mutex<T>) -> std::sync::LockResult<std::sync::MutexGuard<'_, T>> {
    match m.try_lock() {
        Ok(g) => Ok(g),
        Err(std::sync::TryLockError::Poisoned(p)) => Err(p),
        Err(std::sync::TryLockError::WouldBlock) => panic!("std::sync::Mutex::lock would block forever (single-threaded harness)"),
    }
}

/// `eprintln!` / `println!` inside the dependency crates (Kani only overrides the print macros of the
/// crate under verification): diagnostics are not observed, and `io::Write::write_fmt`'s adapter
/// drags `io::Error` drop glue into every call site.
pub fn io_print_noop(_args: std::fmt::Arguments<'_>) {}

/// `core::fmt::write`: every `write!` / `format!` / `Display` / `Debug` rendering funnels through it and
/// dispatches to the formatters through function pointers (`fmt::rt::Argument`), which a solver back
/// end resolves to *every* formatter in the program (among them `TaskId`'s, which looks names up in a
/// hash map). Rendered text is never observed by a property.
pub fn fmt_write_noop(_out: &mut dyn std::fmt::Write, _args: std::fmt::Arguments<'_>) -> std::fmt::Result {
    Ok(())
}

/// `std::env::var` -> not present (RandomScheduler::new_execution consults SHUTTLE_ALWAYS_PERSIST_SEED).
pub fn env_var_unset<K: AsRef<std::ffi::OsStr>>(_key: K) -> Result<String, std::env::VarError> {
    Err(std::env::VarError::NotPresent)
}
