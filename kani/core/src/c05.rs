//! C05 (park/unpark) and C17 (sleep/wake) — the task-level state machines, K-pure.
//!
//! `Task::{park, unpark, unblock, block, sleep_unless_woken, abort(=wake unless finished), finish}` are
//! driven directly on a coroutine-less task (no ExecutionState involved), for every sequence of L
//! operations (op kind symbolic at each step), against the token / wake-flag model of the property.
#[cfg(not(kani))]
use crate::shim as kani;
use shuttle_engine::runtime::task::clock::VectorClock;
use shuttle_engine::runtime::task::TaskState;
use shuttle_engine::scheduler::{Task, TaskId};

fn mk_task(id: usize) -> Task {
    Task::verif_stub(TaskId::from(id), VectorClock::new(), None)
}

/// park/unpark token semantics. Model: `token` (at most one, no accumulation), `parked`.
/// Ops: 0 park (only legal when the task is running, i.e. Runnable and not parked),
///      1 unpark, 2 spurious wake-up by the scheduler (unblock of a task blocked with
///      allow_spurious_wakeups), 3 the task blocks on something else (only when running),
///      4 the primitive the task is blocked on releases it (unblock).
fn park_seq<const L: usize>() {
    let mut t = mk_task(1);
    let mut token = false;
    let mut parked = false;
    let mut blocked_other = false;
    let mut i = 0;
    while i < L {
        let op: u8 = kani::any();
        kani::assume(op <= 4);
        match op {
            0 => {
                kani::assume(!parked && !blocked_other);
                let must_switch = t.park();
                if token {
                    // a pending token is consumed and park returns immediately
                    assert!(!must_switch, "C05: park blocked although an unpark token was pending");
                    assert!(t.runnable(), "C05: park with a pending token left the task blocked");
                    token = false;
                } else {
                    assert!(must_switch, "C05: park returned without a token");
                    assert!(t.blocked() && t.can_spuriously_wakeup(), "C05: parked task is not blocked (spuriously wakeable)");
                    parked = true;
                }
            }
            1 => {
                t.unpark();
                if parked {
                    // the parked task is released; the token is consumed by that release
                    assert!(t.runnable(), "C05: unpark did not release the parked task");
                    parked = false;
                    kani::cover!(true, "unpark released a parked task");
                } else {
                    // tokens do not accumulate
                    token = true;
                    if blocked_other {
                        assert!(t.blocked(), "C05: unpark released a task that is blocked on something else");
                    }
                }
            }
            2 => {
                // the scheduler may run a task that allows spurious wake-ups
                kani::assume(parked);
                assert!(t.can_spuriously_wakeup());
                t.unblock();
                parked = false;
                // the token was not consumed by a spurious wake-up (there was none: parked => no token)
                assert!(!token);
                kani::cover!(true, "spurious wake-up of a parked task");
            }
            3 => {
                kani::assume(!parked && !blocked_other);
                t.block(false);
                blocked_other = true;
            }
            _ => {
                // a mutex / channel / join the task was blocked on releases it: a pending unpark
                // token must survive (it is only ever consumed by park)
                kani::assume(blocked_other);
                t.unblock();
                blocked_other = false;
                kani::cover!(token, "released by a primitive while holding an unpark token");
            }
        }
        // invariants of the property
        let (tok, in_park) = t.verif_park_state();
        assert!(tok == token, "C05: unpark token state differs from the model (tokens must not accumulate or vanish)");
        assert!(in_park == parked, "C05: parked flag differs from the model");
        assert!(!(tok && in_park), "C05: token available while the task is parked");
        if parked {
            assert!(t.blocked());
        }
        if !parked && !blocked_other {
            assert!(t.runnable(), "C05: task neither parked nor blocked is not runnable");
        }
        // a later unpark must never release a task that is blocked on something else
        i += 1;
    }
    kani::cover!(token && !parked, "ends with a pending token");
    std::mem::forget(t);
}

crate::harness! {
    #[kani::unwind(6)]
    fn c05_park_seq4() { park_seq::<4>(); }
}
crate::harness! {
    #[kani::unwind(8)]
    fn c05_park_seq6() { park_seq::<6>(); }
}

/// Executor-side wake protocol (C17): a wake that arrives during or after the latest poll must lead
/// to another poll. Model: `woken` flag; the executor sleeps the task after a Pending poll unless woken.
/// Ops: 0 executor: poll returned Pending -> sleep_unless_woken (task is running)
///      1 somebody invokes the waker (abort() = wake unless finished)
///      2 the task finishes
///      3 the task blocks in a synchronisation operation in the middle of its poll
///      4 that operation releases it
fn wake_seq<const L: usize>() {
    let mut t = mk_task(1);
    let mut woken = false;
    let mut asleep = false;
    let mut finished = false;
    let mut blocked = false;
    let mut i = 0;
    while i < L {
        let op: u8 = kani::any();
        kani::assume(op <= 4);
        match op {
            0 => {
                kani::assume(!asleep && !finished && !blocked);
                t.sleep_unless_woken();
                if woken {
                    assert!(t.runnable(), "C17: a task whose waker was invoked since its last poll was put to sleep (lost wake-up)");
                    woken = false;
                    kani::cover!(true, "wake during poll keeps the task runnable");
                } else {
                    assert!(t.sleeping(), "C17: a pending task that was not woken stays runnable");
                    asleep = true;
                }
            }
            1 => {
                t.abort();
                if !finished {
                    if asleep {
                        assert!(t.runnable(), "C17: waking a sleeping task did not make it runnable");
                        asleep = false;
                        kani::cover!(true, "wake of a sleeping task");
                    }
                    woken = true;
                }
            }
            2 => {
                kani::assume(!asleep && !finished && !blocked);
                t.finish();
                finished = true;
            }
            3 => {
                kani::assume(!asleep && !finished && !blocked);
                t.block(false);
                blocked = true;
            }
            _ => {
                kani::assume(blocked);
                t.unblock();
                blocked = false;
                kani::cover!(woken, "woken while blocked inside its poll");
            }
        }
        assert!(t.verif_woken() == woken || finished, "C17: wake flag differs from the model (a wake during the poll must be remembered)");
        assert!(t.sleeping() == asleep);
        assert!(t.finished() == finished);
        i += 1;
    }
    std::mem::forget(t);
}

crate::harness! {
    #[kani::unwind(6)]
    fn c17_wake_seq4() { wake_seq::<4>(); }
}
crate::harness! {
    #[kani::unwind(8)]
    fn c17_wake_seq6() { wake_seq::<6>(); }
}
