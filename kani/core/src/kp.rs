//! K-pure harnesses over schedulers and wrappers (no ExecutionState): C01 replay fidelity and data
//! seed, C08 wrapper transparency, C10 reseeding, C13 iteration budgets.
#[cfg(not(kani))]
use crate::shim as kani;
use shuttle_engine::runtime::task::clock::VectorClock;
use shuttle_engine::scheduler::data::random::RandomDataSource;
use shuttle_engine::scheduler::data::DataSource;
use shuttle_engine::scheduler::metrics::MetricsScheduler;
use shuttle_engine::scheduler::{Schedule, ScheduleStep, Scheduler, Task, TaskId};
use shuttle_schedulers::{ReplayScheduler, RoundRobinScheduler};

fn mk_task(id: usize) -> Task {
    Task::verif_stub(TaskId::from(id), VectorClock::new(), None)
}

// ---- C08: MetricsScheduler passes decisions through unchanged -----------------------------------------

/// What the inner scheduler was asked (recorded in a static so that it can be read back after the
/// wrapper has taken ownership of the scheduler).
#[derive(Debug, Clone, Copy)]
struct SpyRec {
    n: usize,
    first: usize,
    last: usize,
    cur: Option<usize>,
    y: bool,
    ret: Option<usize>,
    asked: usize,
    draws: usize,
    execs: usize,
}
static mut SPY: SpyRec = SpyRec { n: 0, first: 9, last: 9, cur: None, y: false, ret: None, asked: 0, draws: 0, execs: 0 };

#[derive(Debug)]
struct Spy {
    draw_val: u64,
    exec_some: bool,
}

impl Scheduler for Spy {
    fn new_execution(&mut self) -> Option<Schedule> {
        unsafe { SPY.execs += 1 };
        if self.exec_some {
            Some(Schedule::new(42))
        } else {
            None
        }
    }
    fn next_task(&mut self, r: &[&Task], c: Option<TaskId>, y: bool) -> Option<TaskId> {
        let stop: bool = kani::any();
        let pick_last: bool = kani::any();
        let id = if pick_last { r[r.len() - 1].id() } else { r[0].id() };
        let ret = if stop { None } else { Some(id) };
        unsafe {
            SPY.asked += 1;
            SPY.n = r.len();
            SPY.first = r[0].id().into();
            SPY.last = r[r.len() - 1].id().into();
            SPY.cur = c.map(|x| x.into());
            SPY.y = y;
            SPY.ret = ret.map(|x| x.into());
        }
        ret
    }
    fn next_u64(&mut self) -> u64 {
        unsafe { SPY.draws += 1 };
        self.draw_val
    }
}

crate::harness! {
    #[kani::unwind(4)]
    fn c08_metrics_wrapper_transparent() {
        let t0 = mk_task(0);
        let t2 = mk_task(2);
        let exec_some: bool = kani::any();
        let draw_val: u64 = kani::any();
        unsafe { SPY = SpyRec { n: 0, first: 9, last: 9, cur: None, y: false, ret: None, asked: 0, draws: 0, execs: 0 } };
        let mut m = MetricsScheduler::new(Spy { draw_val, exec_some });
        // new_execution
        let e = m.new_execution();
        assert!(e.is_some() == exec_some && unsafe { SPY.execs } == 1, "C08: metrics wrapper changed new_execution");
        std::mem::forget(e);
        // next_task with symbolic arguments
        let two: bool = kani::any();
        let cur_some: bool = kani::any();
        let cur_id: usize = kani::any();
        kani::assume(cur_id <= 2);
        let cur = if cur_some { Some(TaskId::from(cur_id)) } else { None };
        let y: bool = kani::any();
        let got = if two {
            let r: [&Task; 2] = [&t0, &t2];
            m.next_task(&r, cur, y)
        } else {
            let r: [&Task; 1] = [&t2];
            m.next_task(&r, cur, y)
        };
        let rec = unsafe { SPY };
        assert!(rec.asked == 1, "C08: metrics wrapper did not ask the inner scheduler exactly once");
        assert!(rec.n == if two { 2 } else { 1 } && rec.first == if two { 0 } else { 2 } && rec.last == 2,
            "C08: metrics wrapper changed the task list");
        assert!(rec.cur == cur.map(|x| x.into()) && rec.y == y, "C08: metrics wrapper changed current / is_yielding");
        assert!(got.map(|x| -> usize { x.into() }) == rec.ret, "C08: metrics wrapper changed the scheduler's answer");
        // next_u64
        let d = m.next_u64();
        assert!(d == draw_val && unsafe { SPY.draws } == 1, "C08: metrics wrapper changed a random draw");
        // second execution boundary (metrics are recorded there)
        let e2 = m.new_execution();
        assert!(e2.is_some() == exec_some && unsafe { SPY.execs } == 2, "C08: metrics wrapper changed new_execution");
        std::mem::forget(e2);
        kani::cover!(got.is_none(), "inner scheduler stopped the execution");
        kani::cover!(two && got.is_some(), "two tasks offered");
        std::mem::forget(m);
        std::mem::forget(t0);
        std::mem::forget(t2);
    }
}

// ---- C13: iteration budgets -----------------------------------------------------------------------------

crate::harness! {
    #[kani::unwind(6)]
    fn c13_budget_round_robin() {
        let k: usize = kani::any();
        kani::assume(k <= 3);
        let mut s = RoundRobinScheduler::new(k);
        let mut got = 0usize;
        let mut ended = false;
        crate::unroll!(5, {
            let e = s.new_execution();
            if e.is_some() {
                assert!(!ended, "C13: scheduler offered an execution after it had ended the run");
                got += 1;
            } else {
                ended = true;
            }
            std::mem::forget(e);
        });
        assert!(got == k && ended, "C13: round-robin scheduler does not run exactly its iteration budget");
        kani::cover!(k == 3, "budget 3");
        kani::cover!(k == 0, "budget 0");
        std::mem::forget(s);
    }
}

crate::harness! {
    #[kani::unwind(6)]
    fn c13_budget_replay_once() {
        let mut s = ReplayScheduler::new_from_schedule(Schedule::new(7));
        let e1 = s.new_execution();
        let e2 = s.new_execution();
        let e3 = s.new_execution();
        assert!(e1.is_some() && e2.is_none() && e3.is_none(), "C13: replay runs exactly one execution");
        assert!(e1.as_ref().unwrap().seed == 7, "C01: replay does not report the recorded data seed");
        std::mem::forget(e1);
        std::mem::forget(s);
    }
}

// ---- C01(d) / C10: the data source is re-seeded so that the reported seed reproduces the stream ------------

crate::harness! {
    #[kani::unwind(6)]
    fn c10_data_source_reseed() {
        let s0: u64 = kani::any();
        let mut a = RandomDataSource::initialize(s0);
        // first execution: the seed handed in is the seed reported
        let r1 = a.reinitialize();
        assert!(r1 == s0, "C10: first execution does not report the construction seed");
        let d1 = a.next_u64();
        // a fresh source built from the reported seed produces the same stream
        let mut b = RandomDataSource::initialize(r1);
        let rb = b.reinitialize();
        assert!(rb == r1, "C10: re-created data source reports a different seed");
        assert!(b.next_u64() == d1, "C10/C01: reported seed does not reproduce the data stream");
        // second execution of `a`: a new seed is reported and reproduces that execution's stream
        let r2 = a.reinitialize();
        let d2 = a.next_u64();
        let mut c = RandomDataSource::initialize(r2);
        let rc = c.reinitialize();
        assert!(rc == r2, "C10: re-created data source reports a different seed");
        assert!(c.next_u64() == d2, "C10/C01: seed reported for a later execution does not reproduce its data stream");
        kani::cover!(r2 != s0, "second execution has a different seed");
    }
}

// ---- C01(b): replay serves task steps and random draws strictly in recorded order ---------------------------

fn any_rec_step() -> ScheduleStep {
    let k: u8 = kani::any();
    kani::assume(k <= 2);
    match k {
        0 => ScheduleStep::Task(TaskId::from(0)),
        1 => ScheduleStep::Task(TaskId::from(1)),
        _ => ScheduleStep::Random,
    }
}

crate::harness! {
    #[kani::unwind(6)]
    fn c01_replay_fidelity_3() {
        let mut t0 = mk_task(0);
        let mut t1 = mk_task(1);
        // a task on the offered list is either runnable or blocked with permission to wake up spuriously (parked):
        // the recording scheduler may have picked it in that state, so replay has to accept it
        if kani::any() {
            t0.block(true);
        }
        if kani::any() {
            t1.block(true);
            kani::cover!(true, "a parked task is on the offered list");
        }
        let mut steps = Vec::with_capacity(3);
        let s0 = any_rec_step();
        let s1 = any_rec_step();
        let s2 = any_rec_step();
        let kinds = [s0.clone(), s1.clone(), s2.clone()];
        steps.push(s0);
        steps.push(s1);
        steps.push(s2);
        let seed: u64 = 11;
        let mut r = ReplayScheduler::new_from_schedule(Schedule { seed, steps });
        let e = r.new_execution();
        assert!(e.is_some());
        std::mem::forget(e);
        // reference data stream
        let mut ds = RandomDataSource::initialize(seed);
        ds.reinitialize();
        let mut i = 0;
        let mut cur: Option<TaskId> = None;
        crate::unroll!(3, {
            match kinds[i] {
                ScheduleStep::Random => {
                    // the program draws: the marker is consumed and the draw equals the seeded stream
                    let d = r.next_u64();
                    assert!(d == ds.next_u64(), "C01: replayed random draw differs from the seeded stream");
                    kani::cover!(true, "a random marker was replayed");
                }
                ScheduleStep::Task(want) => {
                    // both tasks runnable, offered in ascending id order; other arguments arbitrary
                    let y: bool = kani::any();
                    let offered: [&Task; 2] = [&t0, &t1];
                    let got = r.next_task(&offered, cur, y);
                    assert!(got == Some(want), "C01: replay scheduled a different task than recorded");
                    cur = got;
                    kani::cover!(want == TaskId::from(1), "task 1 was replayed");
                }
            }
            i += 1;
        });
        std::mem::forget(r);
        std::mem::forget(t0);
        std::mem::forget(t1);
    }
}

crate::harness! {
    #[kani::unwind(7)]
    fn c01_replay_fidelity_4() {
        let mut t0 = mk_task(0);
        let mut t1 = mk_task(1);
        if kani::any() {
            t0.block(true);
        }
        if kani::any() {
            t1.block(true);
        }
        let mut steps = Vec::with_capacity(4);
        let s0 = any_rec_step();
        let s1 = any_rec_step();
        let s2 = any_rec_step();
        let s3 = any_rec_step();
        let kinds = [s0.clone(), s1.clone(), s2.clone(), s3.clone()];
        steps.push(s0);
        steps.push(s1);
        steps.push(s2);
        steps.push(s3);
        let seed: u64 = 11;
        let mut r = ReplayScheduler::new_from_schedule(Schedule { seed, steps });
        let e = r.new_execution();
        assert!(e.is_some());
        std::mem::forget(e);
        // reference data stream
        let mut ds = RandomDataSource::initialize(seed);
        ds.reinitialize();
        let mut i = 0;
        let mut cur: Option<TaskId> = None;
        crate::unroll!(4, {
            match kinds[i] {
                ScheduleStep::Random => {
                    // the program draws: the marker is consumed and the draw equals the seeded stream
                    let d = r.next_u64();
                    assert!(d == ds.next_u64(), "C01: replayed random draw differs from the seeded stream");
                    kani::cover!(true, "a random marker was replayed");
                }
                ScheduleStep::Task(want) => {
                    // both tasks runnable, offered in ascending id order; other arguments arbitrary
                    let y: bool = kani::any();
                    let offered: [&Task; 2] = [&t0, &t1];
                    let got = r.next_task(&offered, cur, y);
                    assert!(got == Some(want), "C01: replay scheduled a different task than recorded");
                    cur = got;
                    kani::cover!(want == TaskId::from(1), "task 1 was replayed");
                }
            }
            i += 1;
        });
        std::mem::forget(r);
        std::mem::forget(t0);
        std::mem::forget(t1);
    }
}


// ---- C01 / C08: the uncontrolled-nondeterminism checker ---------------------------------------------------
// Recording execution: decisions pass through unchanged (C08). Replay execution fed the same calls
// with the same arguments: never a "possible nondeterminism" panic, the recorded answers are
// returned without consulting the inner scheduler (C01: a body whose only nondeterminism is
// scheduling and shuttle::rand is never rejected).

crate::harness! {
    #[kani::unwind(5)]
    fn c01_nd_checker_record_then_replay() {
        use shuttle_schedulers::UncontrolledNondeterminismCheckScheduler;
        let t0 = mk_task(0);
        let t2 = mk_task(2);
        let draw_val: u64 = kani::any();
        unsafe { SPY = SpyRec { n: 0, first: 9, last: 9, cur: None, y: false, ret: None, asked: 0, draws: 0, execs: 0 } };
        let mut c = UncontrolledNondeterminismCheckScheduler::new(Spy { draw_val, exec_some: true });
        // ---- recording execution
        let e1 = c.new_execution();
        assert!(e1.is_some() && unsafe { SPY.execs } == 1);
        std::mem::forget(e1);
        let two: bool = kani::any();
        let y: bool = kani::any();
        let cur_some: bool = kani::any();
        let cur = if cur_some { Some(TaskId::from(0)) } else { None };
        let got1 = if two {
            let r: [&Task; 2] = [&t0, &t2];
            c.next_task(&r, cur, y)
        } else {
            let r: [&Task; 1] = [&t2];
            c.next_task(&r, cur, y)
        };
        let rec = unsafe { SPY };
        assert!(rec.asked == 1 && rec.n == if two { 2 } else { 1 } && rec.last == 2 && rec.y == y
            && rec.cur == cur.map(|x| x.into()), "C08: nondeterminism checker changed the arguments while recording");
        assert!(got1.map(|x| -> usize { x.into() }) == rec.ret, "C08: nondeterminism checker changed the answer while recording");
        let mut d1 = 0;
        if got1.is_some() {
            d1 = c.next_u64();
            assert!(d1 == draw_val && unsafe { SPY.draws } == 1, "C08: nondeterminism checker changed a draw while recording");
        }
        // ---- replay execution: same calls, same arguments
        let e2 = c.new_execution();
        assert!(e2.is_some(), "C01: nondeterminism checker did not start its replay execution");
        assert!(unsafe { SPY.execs } == 1, "C01: replay execution consumed an iteration of the inner scheduler");
        std::mem::forget(e2);
        if got1.is_some() {
            let got2 = if two {
                let r: [&Task; 2] = [&t0, &t2];
                c.next_task(&r, cur, y)
            } else {
                let r: [&Task; 1] = [&t2];
                c.next_task(&r, cur, y)
            };
            assert!(got2 == got1, "C01: nondeterminism checker replays a different decision");
            let d2 = c.next_u64();
            assert!(d2 == d1, "C01: nondeterminism checker replays a different random value");
            assert!(unsafe { SPY.asked } == 1 && unsafe { SPY.draws } == 1, "C01: replay consulted the inner scheduler");
            // ---- next recording execution: the replay had the expected length, no rejection
            let e3 = c.new_execution();
            assert!(e3.is_some() && unsafe { SPY.execs } == 2);
            std::mem::forget(e3);
            kani::cover!(two, "two tasks offered");
        }
        if got1.is_none() {
            // the inner scheduler stopped the recorded execution at its first decision: the replay execution
            // makes the same call, must get the same answer, and must not be rejected
            let got2 = if two {
                let r: [&Task; 2] = [&t0, &t2];
                c.next_task(&r, cur, y)
            } else {
                let r: [&Task; 1] = [&t2];
                c.next_task(&r, cur, y)
            };
            assert!(got2.is_none(), "C01/C08: nondeterminism checker replays a different decision");
            assert!(unsafe { SPY.asked } == 1, "C01: replay consulted the inner scheduler");
            let e3 = c.new_execution();
            assert!(e3.is_some() && unsafe { SPY.execs } == 2);
            std::mem::forget(e3);
        }
        kani::cover!(got1.is_none(), "recording stopped by the inner scheduler");
        std::mem::forget(c);
        std::mem::forget(t0);
        std::mem::forget(t2);
    }
}

// ---- C13: the step-bound comparison -------------------------------------------------------------------------

crate::harness! {
    #[kani::unwind(4)]
    fn c13_step_bound_arith() {
        use shuttle_engine::runtime::execution::ExecutionState;
        use shuttle_engine::Config;
        use std::cell::RefCell;
        use std::rc::Rc;
        // recorded schedule of 3 steps (two task steps and one random draw)
        let mut pre = Schedule::new(0);
        pre.push_task(TaskId::from(0));
        pre.push_random();
        pre.push_task(TaskId::from(0));
        ExecutionState::verif_init_schedule(pre);
        let sched: Rc<RefCell<dyn Scheduler>> = Rc::new(RefCell::new(crate::env::NullSched));
        let mut st = ExecutionState::verif_new(Config::new(), sched);
        let reset: usize = kani::any();
        kani::assume(reset <= 3); // reset_step_count() stores the current length, which never exceeds it
        st.steps_reset_at = reset;
        let bound: usize = kani::any();
        let got = st.verif_is_step_bound_exceeded(bound);
        // steps since the last reset: scheduling decisions plus random draws
        let steps = 3 - reset;
        assert!(got == (steps >= bound), "C13: step bound comparison is off (must trip exactly when steps since reset reach the bound)");
        kani::cover!(got && bound == 3, "bound reached exactly");
        kani::cover!(!got && bound == 4, "one below the bound");
        std::mem::forget(st);
    }
}


// ---- C01(d): the data seed reported for *any* execution reproduces that execution's data stream ----------
// (concrete construction seeds: PCG's 128-bit arithmetic on a symbolic seed does not finish)

// ---- C01 (recording side, draws): every shuttle::rand draw is recorded as exactly one Random marker, in position,
// and is served by exactly one call of the scheduler's data source ------------------------------------------------

#[derive(Debug)]
struct DrawSched {
    base: u64,
    n: u64,
}
impl Scheduler for DrawSched {
    fn new_execution(&mut self) -> Option<Schedule> {
        None
    }
    fn next_task(&mut self, r: &[&Task], _c: Option<TaskId>, _y: bool) -> Option<TaskId> {
        Some(r[0].id())
    }
    fn next_u64(&mut self) -> u64 {
        let v = self.base.wrapping_add(self.n);
        self.n += 1;
        v
    }
}

fn recording_of_draws<const K: usize, const N: usize>() {
    use shuttle_engine::runtime::execution::{CurrentSchedule, ExecutionState};
    use shuttle_engine::Config;
    use std::cell::RefCell;
    use std::rc::Rc;
    let seed: u64 = kani::any();
    let base: u64 = kani::any();
    // K steps already recorded (task steps and draws alike), then N draws
    let mut pre = Schedule::new(seed);
    let pre_random0: bool = kani::any();
    let pre_random1: bool = kani::any();
    if K >= 1 {
        if pre_random0 { pre.push_random() } else { pre.push_task(TaskId::from(0)) }
    }
    if K >= 2 {
        if pre_random1 { pre.push_random() } else { pre.push_task(TaskId::from(1)) }
    }
    ExecutionState::verif_init_schedule(pre);
    let sched: Rc<RefCell<dyn Scheduler>> = Rc::new(RefCell::new(DrawSched { base, n: 0 }));
    let st = RefCell::new(ExecutionState::verif_new(Config::new(), sched));
    let mut d = [0u64; 2];
    ExecutionState::verif_enter(&st, || {
        if N >= 1 {
            d[0] = ExecutionState::next_u64();
        }
        if N >= 2 {
            d[1] = ExecutionState::next_u64();
        }
    });
    let rec = CurrentSchedule::get_schedule();
    assert!(rec.seed == seed, "C01: recording changed the schedule's seed");
    assert!(rec.steps.len() == K + N, "C01: a random draw was not recorded as exactly one step");
    if K >= 1 {
        assert!(rec.steps[0] == if pre_random0 { ScheduleStep::Random } else { ScheduleStep::Task(TaskId::from(0)) },
            "C01: recording a draw disturbed an earlier step");
    }
    if K >= 2 {
        assert!(rec.steps[1] == if pre_random1 { ScheduleStep::Random } else { ScheduleStep::Task(TaskId::from(1)) },
            "C01: recording a draw disturbed an earlier step");
    }
    if N >= 1 {
        assert!(rec.steps[K] == ScheduleStep::Random, "C01: a random draw was not recorded as a Random marker in position");
        assert!(d[0] == base, "C01: a draw was not served by exactly one call of the scheduler's data source");
    }
    if N >= 2 {
        assert!(rec.steps[K + 1] == ScheduleStep::Random, "C01: a random draw was not recorded as a Random marker in position");
        assert!(d[1] == base.wrapping_add(1), "C01: a draw was not served by exactly one call of the scheduler's data source");
    }
    kani::cover!(K == 0 || pre_random0, "an earlier draw or no earlier step");
    std::mem::forget(rec);
    std::mem::forget(st);
}

crate::harness! {
    #[kani::unwind(6)]
    fn c01_recording_of_draws_0_1() { recording_of_draws::<0, 1>(); }
}
crate::harness! {
    #[kani::unwind(6)]
    fn c01_recording_of_draws_2_2() { recording_of_draws::<2, 2>(); }
}
crate::harness! {
    #[kani::unwind(6)]
    fn c01_recording_of_draws_1_0() { recording_of_draws::<1, 0>(); }
}

// ---- C13: what the runtime does when the step bound is reached (FailAfter / ContinueAfter / None) ----------------
// `ExecutionState::schedule` checks the bound first and only then walks the task table; the walk (and everything
// behind it) is the part no solver run gets through (DESIGN.md 2.1), so under Kani the path ends at the task table's
// `iter()` - after asserting that the bound had not been reached. Natively the whole function runs (no tasks: the
// execution is finished).

static mut BOUND_TRIPS: bool = false;

#[cfg(kani)]
pub fn tasktable_iter_stub(_t: &shuttle_engine::verif_support::TaskTable) -> shuttle_engine::verif_support::TaskTableIter<'_> {
    assert!(!unsafe { BOUND_TRIPS }, "C13: the step bound was reached but the runtime went on to make a scheduling decision");
    kani::cover!(true, "below the bound the runtime goes on to the scheduling decision");
    kani::assume(false);
    unreachable!()
}

crate::harness! {
    #[kani::stub(shuttle_engine::verif_support::TaskTable::iter, crate::kp::tasktable_iter_stub)]
    #[kani::unwind(4)]
    fn c13_step_bound_reaction() {
        use shuttle_engine::runtime::execution::{ExecutionState, VerifOutcome, VerifScheduled};
        use shuttle_engine::{Config, MaxSteps};
        use std::cell::RefCell;
        use std::rc::Rc;
        // recorded schedule of 3 steps (two task steps and one random draw)
        let mut pre = Schedule::new(0);
        pre.push_task(TaskId::from(0));
        pre.push_random();
        pre.push_task(TaskId::from(0));
        ExecutionState::verif_init_schedule(pre);
        let bound: usize = kani::any();
        let mode: u8 = kani::any::<u8>() % 3;
        let mut config = Config::new();
        config.max_steps = match mode {
            0 => MaxSteps::None,
            1 => MaxSteps::FailAfter(bound),
            _ => MaxSteps::ContinueAfter(bound),
        };
        let sched: Rc<RefCell<dyn Scheduler>> = Rc::new(RefCell::new(crate::env::NullSched));
        let mut st = ExecutionState::verif_new(config, sched);
        let reset: usize = (kani::any::<u8>() % 4) as usize; // reset_step_count() stores the current length, which never exceeds it
        st.steps_reset_at = reset;
        let steps = 3 - reset;
        let trips = mode != 0 && steps >= bound;
        unsafe { BOUND_TRIPS = trips };
        let out = st.verif_schedule();
        let next = st.verif_next_task();
        if trips && mode == 1 {
            assert!(out == VerifOutcome::StepBoundExceeded, "C13: FailAfter bound reached but the execution did not fail with the step-bound error");
        } else if trips {
            assert!(out == VerifOutcome::Ok && next == VerifScheduled::Stopped,
                "C13: ContinueAfter bound reached but the execution was not silently stopped");
        } else {
            // only reached natively (no tasks: the execution is over); under Kani the path ended at the task table
            assert!(out == VerifOutcome::Ok && next == VerifScheduled::Finished,
                "C13: an execution below its step bound (or without one) was affected by the bound");
        }
        kani::cover!(trips && mode == 1 && steps == bound, "FailAfter bound reached exactly");
        kani::cover!(trips && mode == 2, "ContinueAfter bound reached");
        std::mem::forget(st);
    }
}

// ---- C13: reset_step_count() restarts the count at zero ---------------------------------------------------------

crate::harness! {
    #[kani::unwind(8)]
    fn c13_reset_then_bound() {
        use shuttle_engine::runtime::execution::ExecutionState;
        use shuttle_engine::Config;
        use std::cell::RefCell;
        use std::rc::Rc;
        // k steps recorded before the reset, m steps after it (task steps and random draws alike)
        let k: usize = (kani::any::<u8>() % 4) as usize;
        let m: usize = (kani::any::<u8>() % 4) as usize;
        let mut pre = Schedule::new(0);
        let mut i = 0;
        while i < k {
            if kani::any() { pre.push_task(TaskId::from(0)) } else { pre.push_random() }
            i += 1;
        }
        ExecutionState::verif_init_schedule(pre);
        let sched: Rc<RefCell<dyn Scheduler>> = Rc::new(RefCell::new(crate::env::NullSched));
        let st = RefCell::new(ExecutionState::verif_new(Config::new(), sched));
        ExecutionState::verif_enter(&st, || shuttle_engine::current::reset_step_count());
        // the recorded schedule grows by m steps
        let mut post = Schedule::new(0);
        let mut i = 0;
        while i < k + m {
            if kani::any() { post.push_task(TaskId::from(0)) } else { post.push_random() }
            i += 1;
        }
        ExecutionState::verif_init_schedule(post);
        let bound: usize = kani::any();
        let got = st.borrow().verif_is_step_bound_exceeded(bound);
        assert!(got == (m >= bound), "C13: after reset_step_count the bound must trip exactly when the steps since the reset reach it");
        kani::cover!(got && k == 2 && m == 3 && bound == 3, "bound reached exactly after a reset");
        kani::cover!(!got && k == 1 && m == 2 && bound == 3, "one below the bound after a reset");
        std::mem::forget(st);
    }
}

fn data_seed_reproduces(s0: u64) {
    let mut a = RandomDataSource::initialize(s0);
    let r1 = a.reinitialize();
    assert!(r1 == s0, "C01: first execution does not report the construction seed");
    let d1 = a.next_u64();
    let _ = a.next_u64();
    let mut b = RandomDataSource::initialize(r1);
    assert!(b.reinitialize() == r1 && b.next_u64() == d1, "C01: reported seed does not reproduce the first execution's data stream");
    // second and third execution of the same source
    let r2 = a.reinitialize();
    let d2 = a.next_u64();
    let mut c = RandomDataSource::initialize(r2);
    assert!(c.reinitialize() == r2, "C01: re-created data source reports a different seed");
    assert!(c.next_u64() == d2, "C01: seed reported for the second execution does not reproduce its data stream");
    let r3 = a.reinitialize();
    let d3 = a.next_u64();
    let mut d = RandomDataSource::initialize(r3);
    assert!(d.reinitialize() == r3 && d.next_u64() == d3, "C01: seed reported for the third execution does not reproduce its data stream");
    kani::cover!(r2 != r1, "later executions get fresh seeds");
}

crate::harness! {
    #[kani::unwind(6)]
    fn c01_data_seed_reproduces_each_execution() {
        data_seed_reproduces(0);
        data_seed_reproduces(0x1234_5678);
        data_seed_reproduces(u64::MAX);
    }
}

// ---- C09: the fixed data source of the DFS scheduler rewinds to the same stream in every execution ---------------
fn fixed_source_rewinds(s0: u64) {
    use shuttle_engine::scheduler::data::fixed::FixedDataSource;
    let mut a = FixedDataSource::initialize(s0);
    let r1 = a.reinitialize();
    let d10 = a.next_u64();
    let d11 = a.next_u64();
    // second execution: fewer draws than the first; third: more
    let r2 = a.reinitialize();
    let d20 = a.next_u64();
    let r3 = a.reinitialize();
    let d30 = a.next_u64();
    let d31 = a.next_u64();
    let _ = a.next_u64();
    let r4 = a.reinitialize();
    let d40 = a.next_u64();
    let d41 = a.next_u64();
    assert!(r1 == r2 && r2 == r3 && r3 == r4, "C09: the fixed data source reports a different seed for a later execution");
    assert!(d10 == d20 && d10 == d30 && d10 == d40, "C09: the first draw of a later execution differs from the first execution's");
    assert!(d11 == d31 && d11 == d41, "C09: the second draw of a later execution differs from the first execution's");
    // the reported seed re-creates the stream (what a replay of a DFS schedule relies on)
    let mut b = RandomDataSource::initialize(r1);
    assert!(b.reinitialize() == r1 && b.next_u64() == d10 && b.next_u64() == d11, "C09/C01: the seed reported by the fixed data source does not reproduce its stream");
    kani::cover!(d10 != d11, "the stream is not constant");
}

crate::harness! {
    #[kani::unwind(6)]
    fn c09_fixed_data_source_rewinds() {
        fixed_source_rewinds(0x1234_5678);
        fixed_source_rewinds(0);
    }
}

// Long executions: the first execution draws 40 values; the second draws a symbolic number m <= 40 of values; the third
// draws 40 again. Every draw of a later execution must equal the draw at the same position of the first one, whatever the
// length of the execution in between (a source that caches a prefix, or rewinds lazily, differs only behind it).
fn fixed_source_long(s0: u64) {
    use shuttle_engine::scheduler::data::fixed::FixedDataSource;
    const N: usize = 40;
    let mut a = FixedDataSource::initialize(s0);
    let r1 = a.reinitialize();
    let mut first = [0u64; N];
    let mut i = 0;
    while i < N {
        first[i] = a.next_u64();
        i += 1;
    }
    let m: usize = kani::any();
    kani::assume(m <= N);
    let r2 = a.reinitialize();
    let mut i = 0;
    while i < m {
        let d = a.next_u64();
        assert!(d == first[i], "C09: a draw of the second execution differs from the first execution's draw at the same position");
        i += 1;
    }
    let r3 = a.reinitialize();
    let mut i = 0;
    while i < N {
        let d = a.next_u64();
        assert!(d == first[i], "C09: a draw of the third execution differs from the first execution's draw at the same position");
        i += 1;
    }
    assert!(r1 == r2 && r2 == r3, "C09: the fixed data source reports a different seed for a later execution");
    kani::cover!(m == N, "a second execution as long as the first");
    kani::cover!(m == 0, "a second execution without draws");
}

crate::harness! {
    #[kani::unwind(42)]
    fn c09_fixed_data_source_long_executions() {
        fixed_source_long(0x1234_5678);
    }
}

// ---- C10: reseeding with symbolic seeds of bounded width -----------------------------------------------------
fn reseed_bits<const BITS: u32>() {
    let s0: u64 = kani::any();
    if BITS < 64 {
        kani::assume(s0 < (1u64 << BITS));
    }
    let mut a = RandomDataSource::initialize(s0);
    let r1 = a.reinitialize();
    assert!(r1 == s0, "C10: first execution does not report the construction seed");
    let d1 = a.next_u64();
    let mut b = RandomDataSource::initialize(r1);
    let rb = b.reinitialize();
    assert!(rb == r1 && b.next_u64() == d1, "C10: reported seed does not reproduce the data stream");
    let r2 = a.reinitialize();
    let d2 = a.next_u64();
    let mut c = RandomDataSource::initialize(r2);
    let rc = c.reinitialize();
    assert!(rc == r2 && c.next_u64() == d2, "C10: seed reported for the second execution does not reproduce its data stream");
}
crate::harness! {
    #[kani::unwind(6)]
    fn c10_reseed_bits8() { reseed_bits::<8>(); }
}
crate::harness! {
    #[kani::unwind(6)]
    fn c10_reseed_bits16() { reseed_bits::<16>(); }
}
crate::harness! {
    #[kani::unwind(6)]
    fn c10_reseed_bits64() { reseed_bits::<64>(); }
}

// ---- C08: AnnotationScheduler (feature `annotation` off) passes decisions through unchanged ---------------------

crate::harness! {
    #[kani::unwind(4)]
    fn c08_annotation_wrapper_transparent() {
        use shuttle_schedulers::AnnotationScheduler;
        let t0 = mk_task(0);
        let t2 = mk_task(2);
        let exec_some: bool = kani::any();
        let draw_val: u64 = kani::any();
        unsafe { SPY = SpyRec { n: 0, first: 9, last: 9, cur: None, y: false, ret: None, asked: 0, draws: 0, execs: 0 } };
        let mut m = AnnotationScheduler::new(Spy { draw_val, exec_some });
        let e = m.new_execution();
        assert!(e.is_some() == exec_some && unsafe { SPY.execs } == 1, "C08: annotation wrapper changed new_execution");
        std::mem::forget(e);
        let two: bool = kani::any();
        let cur_some: bool = kani::any();
        let cur_id: usize = kani::any();
        kani::assume(cur_id <= 2);
        let cur = if cur_some { Some(TaskId::from(cur_id)) } else { None };
        let y: bool = kani::any();
        let got = if two {
            let r: [&Task; 2] = [&t0, &t2];
            m.next_task(&r, cur, y)
        } else {
            let r: [&Task; 1] = [&t2];
            m.next_task(&r, cur, y)
        };
        let rec = unsafe { SPY };
        assert!(rec.asked == 1, "C08: annotation wrapper did not ask the inner scheduler exactly once");
        assert!(rec.n == if two { 2 } else { 1 } && rec.first == if two { 0 } else { 2 } && rec.last == 2,
            "C08: annotation wrapper changed the task list");
        assert!(rec.cur == cur.map(|x| x.into()) && rec.y == y, "C08: annotation wrapper changed current / is_yielding");
        assert!(got.map(|x| -> usize { x.into() }) == rec.ret, "C08: annotation wrapper changed the scheduler's answer");
        let d = m.next_u64();
        assert!(d == draw_val && unsafe { SPY.draws } == 1, "C08: annotation wrapper changed a random draw");
        kani::cover!(got.is_none(), "inner scheduler stopped the execution");
        kani::cover!(two && got.is_some(), "two tasks offered");
        std::mem::forget(m);
        std::mem::forget(t0);
        std::mem::forget(t2);
    }
}

// ---- C08: the portfolio stop-flag wrapper is transparent until the flag is set, then ends execution and run ------

crate::harness! {
    #[kani::unwind(4)]
    fn c08_portfolio_stop_wrapper() {
        use std::sync::atomic::{AtomicBool, Ordering};
        use std::sync::Arc;
        let t0 = mk_task(0);
        let t2 = mk_task(2);
        let exec_some: bool = kani::any();
        let draw_val: u64 = kani::any();
        unsafe { SPY = SpyRec { n: 0, first: 9, last: 9, cur: None, y: false, ret: None, asked: 0, draws: 0, execs: 0 } };
        let stop = Arc::new(AtomicBool::new(false));
        let mut m = shuttle_engine::runtime::runner::verif_portfolio_stoppable(Spy { draw_val, exec_some }, stop.clone());
        // the flag may be raised (by another portfolio member) before the execution starts, before the decision, or never
        let stop_before_exec: bool = kani::any();
        let stop_before_decision: bool = kani::any();
        if stop_before_exec {
            stop.store(true, Ordering::SeqCst);
        }
        let e = m.new_execution();
        if stop_before_exec {
            assert!(e.is_none() && unsafe { SPY.execs } == 0, "C08: a stopped portfolio member started another execution");
        } else {
            assert!(e.is_some() == exec_some && unsafe { SPY.execs } == 1, "C08: portfolio wrapper changed new_execution");
        }
        std::mem::forget(e);
        if stop_before_decision {
            stop.store(true, Ordering::SeqCst);
        }
        let stopped = stop_before_exec || stop_before_decision;
        let two: bool = kani::any();
        let cur_some: bool = kani::any();
        let cur_id: usize = kani::any();
        kani::assume(cur_id <= 2);
        let cur = if cur_some { Some(TaskId::from(cur_id)) } else { None };
        let y: bool = kani::any();
        let got = if two {
            let r: [&Task; 2] = [&t0, &t2];
            m.next_task(&r, cur, y)
        } else {
            let r: [&Task; 1] = [&t2];
            m.next_task(&r, cur, y)
        };
        let rec = unsafe { SPY };
        if stopped {
            assert!(got.is_none() && rec.asked == 0, "C08: a stopped portfolio member kept scheduling");
        } else {
            assert!(rec.asked == 1, "C08: portfolio wrapper did not ask the inner scheduler exactly once");
            assert!(rec.n == if two { 2 } else { 1 } && rec.first == if two { 0 } else { 2 } && rec.last == 2,
                "C08: portfolio wrapper changed the task list");
            assert!(rec.cur == cur.map(|x| x.into()) && rec.y == y, "C08: portfolio wrapper changed current / is_yielding");
            assert!(got.map(|x| -> usize { x.into() }) == rec.ret, "C08: portfolio wrapper changed the scheduler's answer");
        }
        let d = m.next_u64();
        assert!(d == draw_val && unsafe { SPY.draws } == 1, "C08: portfolio wrapper changed a random draw");
        kani::cover!(stopped && got.is_none(), "stop flag ends the execution");
        kani::cover!(!stopped && two && got.is_some(), "two tasks offered, not stopped");
        std::mem::forget(m);
        std::mem::forget(stop);
        std::mem::forget(t0);
        std::mem::forget(t2);
    }
}

// ---- C01: replay never substitutes a different task for a recorded one that is not runnable -------------------

crate::harness! {
    #[kani::unwind(6)]
    fn c01_replay_refuses_missing_task() {
        let t0 = mk_task(0);
        let t1 = mk_task(1);
        let t2 = mk_task(2);
        // recorded: task `want`; offered: the two other tasks
        let want: usize = kani::any();
        kani::assume(want <= 2);
        let mut steps = Vec::with_capacity(1);
        steps.push(ScheduleStep::Task(TaskId::from(want)));
        let mut r = ReplayScheduler::new_from_schedule(Schedule { seed: 3, steps });
        r.set_allow_incomplete();
        let e = r.new_execution();
        std::mem::forget(e);
        let got = match want {
            0 => { let o: [&Task; 2] = [&t1, &t2]; r.next_task(&o, None, false) }
            1 => { let o: [&Task; 2] = [&t0, &t2]; r.next_task(&o, None, false) }
            _ => { let o: [&Task; 2] = [&t0, &t1]; r.next_task(&o, None, false) }
        };
        assert!(got.is_none(), "C01: replay scheduled a task other than the recorded one");
        kani::cover!(want == 1, "recorded task 1 missing from the offered list");
        std::mem::forget(r);
        std::mem::forget((t0, t1, t2));
    }
}


// ---- C13: DFS iteration budget on a body without scheduling choices -------------------------------------------

crate::harness! {
    #[kani::unwind(6)]
    fn c13_budget_dfs_no_choices() {
        use shuttle_schedulers::DfsScheduler;
        // a body whose executions make no scheduling decision at all: exactly one schedule exists
        let bounded: bool = kani::any();
        let k: usize = kani::any();
        kani::assume(k <= 3);
        let mut s = DfsScheduler::new(if bounded { Some(k) } else { None }, false);
        let mut got = 0usize;
        let mut ended = false;
        crate::unroll!(4, {
            let e = s.new_execution();
            if e.is_some() {
                assert!(!ended, "C13: DFS offered an execution after it had ended the run");
                got += 1;
            } else {
                ended = true;
            }
            std::mem::forget(e);
        });
        let want = if bounded && k == 0 { 0 } else { 1 };
        assert!(got == want && ended, "C13/C09: DFS does not run exactly min(budget, number of schedules) executions");
        kani::cover!(bounded && k == 0, "zero budget");
        kani::cover!(!bounded, "unbounded");
        std::mem::forget(s);
    }
}

// ---- C10: RandomScheduler is seed-deterministic and every reported per-iteration seed reproduces that iteration ---
// Construction seeds are concrete (PCG's 128-bit multiply on a symbolic seed does not finish); what the solver
// ranges over is the operation history: which iteration is reproduced, and for every iteration which operations
// (data draw, decision among 1, 2 or 3 offered tasks) were performed before the seed for the next one is drawn.

fn c10_op(s: &mut shuttle_schedulers::RandomScheduler, ts: &[&Task; 3], kind: u8) -> u64 {
    let r = match kind {
        0 => return s.next_u64(),
        1 => s.next_task(&ts[..1], None, false),
        2 => s.next_task(&ts[..2], None, false),
        _ => s.next_task(&ts[..3], None, false),
    };
    match r {
        Some(t) => usize::from(t) as u64,
        None => 99,
    }
}

fn any_kind() -> u8 {
    let k: u8 = kani::any();
    k & 3
}

fn random_seed_reproduces<const ITER: usize>(s0: u64) {
    use shuttle_schedulers::RandomScheduler;
    let t0 = mk_task(0);
    let t1 = mk_task(1);
    let t2 = mk_task(2);
    let ts = [&t0, &t1, &t2];
    let mut a = RandomScheduler::new_from_seed(s0, ITER);
    let target: usize = 1 + (kani::any::<u8>() as usize) % ITER;
    let mut seed = 0u64;
    let mut k = [0u8; 2];
    let mut got = [0u64; 2];
    let mut it = 1usize;
    while it <= ITER {
        let e = a.new_execution();
        assert!(e.is_some(), "C10: iteration budget ended early");
        let sd = e.as_ref().unwrap().seed;
        if it == 1 {
            assert!(sd == s0, "C10: first iteration does not report the construction seed");
        }
        std::mem::forget(e);
        let k0 = any_kind();
        let k1 = any_kind();
        let g0 = c10_op(&mut a, &ts, k0);
        let g1 = c10_op(&mut a, &ts, k1);
        if k0 != 0 { assert!(g0 < k0 as u64, "C10: random scheduler chose a task that was not offered"); }
        if k1 != 0 { assert!(g1 < k1 as u64, "C10: random scheduler chose a task that was not offered"); }
        if it == target {
            seed = sd;
            k = [k0, k1];
            got = [g0, g1];
        }
        it += 1;
    }
    assert!(a.new_execution().is_none(), "C10: random scheduler exceeds its iteration budget");
    // what check_random_with_seed(seed, 1) builds
    let mut b = RandomScheduler::new_from_seed(seed, 1);
    let eb = b.new_execution();
    assert!(eb.is_some() && eb.as_ref().unwrap().seed == seed, "C10: re-created scheduler reports a different seed");
    std::mem::forget(eb);
    let h0 = c10_op(&mut b, &ts, k[0]);
    let h1 = c10_op(&mut b, &ts, k[1]);
    assert!(
        h0 == got[0] && h1 == got[1],
        "C10: the seed reported for an iteration does not reproduce that iteration's decisions and data draws"
    );
    assert!(b.new_execution().is_none(), "C10: single-iteration scheduler runs a second iteration");
    kani::cover!(target == ITER && k[0] == 3 && k[1] == 0, "last iteration reproduced, mixed operations");
    kani::cover!(target == 1 && k[0] == 2, "first iteration reproduced");
    std::mem::forget(a);
    std::mem::forget(b);
    std::mem::forget(t0);
    std::mem::forget(t1);
    std::mem::forget(t2);
}

crate::harness! {
    #[kani::stub(std::env::var, crate::stubs::env_var_unset)]
    #[kani::unwind(12)]
    fn c10_random_seed_reproduces_2() {
        random_seed_reproduces::<2>(0x1234_5678);
    }
}
crate::harness! {
    #[kani::stub(std::env::var, crate::stubs::env_var_unset)]
    #[kani::unwind(12)]
    fn c10_random_seed_reproduces_3() {
        random_seed_reproduces::<3>(0x1234_5678);
    }
}
crate::harness! {
    #[kani::stub(std::env::var, crate::stubs::env_var_unset)]
    #[kani::unwind(12)]
    fn c10_probe_seed1() { random_seed_reproduces::<2>(1); }
}
crate::harness! {
    #[kani::stub(std::env::var, crate::stubs::env_var_unset)]
    #[kani::unwind(12)]
    fn c10_probe_seed42() { random_seed_reproduces::<2>(42); }
}
crate::harness! {
    #[kani::stub(std::env::var, crate::stubs::env_var_unset)]
    #[kani::unwind(12)]
    fn c10_probe_seed7() { random_seed_reproduces::<2>(7); }
}
crate::harness! {
    #[kani::stub(std::env::var, crate::stubs::env_var_unset)]
    #[kani::unwind(12)]
    fn c10_probe_seedbeef() { random_seed_reproduces::<2>(0xdead_beef); }
}
crate::harness! {
    #[kani::stub(std::env::var, crate::stubs::env_var_unset)]
    #[kani::unwind(12)]
    fn c10_random_seed_reproduces_2_seed0() {
        random_seed_reproduces::<2>(0);
    }
}
crate::harness! {
    #[kani::stub(std::env::var, crate::stubs::env_var_unset)]
    #[kani::unwind(12)]
    fn c10_random_seed_reproduces_2_seedmax() {
        random_seed_reproduces::<2>(u64::MAX);
    }
}
