//! C03 / C08 / C13 / C01(a) — one scheduling decision of the real runtime from an arbitrary task table.
//!
//! The task table is built with the real transition functions (block / sleep / finish / detach), the
//! recorded schedule with the real `CurrentSchedule`, the step bound with the real `Config`. Then the
//! real `Execution::run_to_completion` loop runs: it calls the real `ExecutionState::schedule()`,
//! `advance_to_next_task()` and, for a chosen task, the resume callback. The scheduler is an oracle
//! that checks the `Scheduler` contract on its arguments (C08), answers with a symbolic choice among
//! the offered tasks (or None), and stops the execution at the following decision.
//!
//! Asserted against a specification predicate written from the property text:
//!  * C13: under FailAfter(n) the run fails with the step-bound verdict iff len - reset >= n and the
//!    scheduler is not consulted; under ContinueAfter(n) the execution is abandoned silently;
//!  * C03: deadlock iff (no task is Runnable, or only detached ones are and no attached task is
//!    unfinished) and some attached task is unfinished; tasks that may only wake spuriously are
//!    offered but do not count;
//!  * C08: the argument list, `current`, `is_yielding`, and that the task whose step runs next is the
//!    one the scheduler returned, exactly once, and that None ends the execution without failure;
//!  * C01(a): every decision that picks a task appends exactly one `Task(id)` step to the recorded
//!    schedule (also when the same task continues), a decision that picks none appends nothing.
#[cfg(not(kani))]
use crate::shim as kani;
use crate::env::*;
use shuttle_engine::runtime::execution::{CurrentSchedule, Execution, ExecutionState, VerifOutcome, VerifScheduled};
use shuttle_engine::runtime::task::TaskState;
use shuttle_engine::scheduler::{Schedule, ScheduleStep, Scheduler, Task, TaskId};
use shuttle_engine::{Config, MaxSteps};
use std::cell::RefCell;
use std::rc::Rc;

pub const MAXT: usize = 3;

pub struct Oracle {
    pub calls: usize,
    pub n: usize,
    pub ids: [usize; MAXT],
    pub cur: Option<usize>,
    pub yielding: bool,
    pub ret: Option<usize>,
    /// what the harness knows about the tasks (index = task id): runnable / spuriously wakeable / finished
    pub runnable: [bool; MAXT],
    pub spurious: [bool; MAXT],
    pub ntasks: usize,
}

impl Scheduler for Oracle {
    fn new_execution(&mut self) -> Option<Schedule> {
        None
    }

    fn next_task(&mut self, r: &[&Task], c: Option<TaskId>, y: bool) -> Option<TaskId> {
        self.calls += 1;
        if self.calls >= 2 {
            // stop the execution at the decision after the one under test
            return None;
        }
        // ---- the Scheduler contract (C08) ----
        assert!(!r.is_empty(), "C08: scheduler was given an empty task list");
        assert!(r.len() <= self.ntasks, "C08: scheduler was given more tasks than exist");
        self.n = r.len();
        let mut present = [false; MAXT];
        let mut i = 0;
        let mut prev: Option<usize> = None;
        crate::unroll!(3, {
            if i < r.len() {
                let id: usize = r[i].id().into();
                assert!(id < self.ntasks, "C08: unknown task offered");
                if let Some(p) = prev {
                    assert!(p < id, "C08: offered tasks are not in strictly ascending id order");
                }
                prev = Some(id);
                assert!(!r[i].finished(), "C08: a finished task was offered");
                let ok = if id == 0 { self.runnable[0] || self.spurious[0] } else if id == 1 { self.runnable[1] || self.spurious[1] } else { self.runnable[2] || self.spurious[2] };
                assert!(ok, "C08: a task that can neither run nor wake spuriously was offered");
                self.ids[i] = id;
                if id == 0 { present[0] = true; } else if id == 1 { present[1] = true; } else { present[2] = true; }
            }
            i += 1;
        });
        let mut t = 0;
        crate::unroll!(3, {
            if t < self.ntasks {
                if self.runnable[t] || self.spurious[t] {
                    assert!(present[t], "C08: a task able to run was not offered to the scheduler");
                }
            }
            t += 1;
        });
        self.cur = c.map(|x| x.into());
        self.yielding = y;
        // ---- symbolic answer: any offered task (chosen by id, no symbolic indexing) or None ----
        let stop: bool = kani::any();
        if stop {
            self.ret = None;
            None
        } else {
            let want: usize = kani::any();
            kani::assume(want < self.ntasks);
            kani::assume(present[want]);
            self.ret = Some(want);
            Some(TaskId::from(want))
        }
    }

    fn next_u64(&mut self) -> u64 {
        0
    }
}

/// Put task `i` (literal) into a state through the real transition functions: Finished if `fin`
/// (literal, part of the instance's skeleton so that `live_tasks` stays concrete), otherwise a
/// symbolic one of Runnable / Blocked / Blocked-spurious / Sleeping; detached is symbolic.
/// Returns (state code 0..=4, detached).
fn shape_task(i: usize, fin: bool) -> (u8, bool) {
    let det: bool = kani::any();
    let st: u8 = if fin {
        4
    } else {
        let x: u8 = kani::any();
        kani::assume(x <= 3);
        x
    };
    ExecutionState::with(|s| {
        if det {
            s.get_mut(tid(i)).detach();
        }
        if fin {
            s.verif_finish_task(tid(i));
        } else {
            match st {
                0 => {}
                1 => s.get_mut(tid(i)).block(false),
                2 => s.get_mut(tid(i)).block(true),
                _ => s.get_mut(tid(i)).sleep(),
            }
        }
    });
    (st, det)
}

fn ran(i: usize) -> usize {
    let r = shuttle_engine::verif_support::recorder();
    if i == 0 { r.resumed[0] } else if i == 1 { r.resumed[1] } else { r.resumed[2] }
}

macro_rules! decision_harness {
    ($name:ident, $n:literal, $cur:literal, [$(($i:literal, $fin:literal)),*]) => {
        crate::harness! {
            #[kani::unwind(5)]
            fn $name() {
                // step bound configuration
                let mode: u8 = kani::any();
                kani::assume(mode <= 2);
                let bound: usize = kani::any();
                kani::assume(bound <= 4);
                let mut config = Config::new();
                config.max_steps = match mode {
                    0 => MaxSteps::None,
                    1 => MaxSteps::FailAfter(bound),
                    _ => MaxSteps::ContinueAfter(bound),
                };
                let oracle = Rc::new(RefCell::new(Oracle {
                    calls: 0, n: 0, ids: [0; MAXT], cur: None, yielding: false, ret: None,
                    runnable: [false; MAXT], spurious: [false; MAXT], ntasks: $n,
                }));
                let sched: Rc<RefCell<dyn Scheduler>> = oracle.clone();
                // recorded schedule so far: two steps (one task step, one random draw)
                let mut pre = Schedule::new(7);
                pre.push_task(tid(0));
                pre.push_random();
                ExecutionState::verif_init_schedule(pre);
                {
                    let r = shuttle_engine::verif_support::recorder();
                    r.resumed = [0; 8];
                    r.resumed_total = 0;
                    r.step_finishes = false;
                }
                let mut exec = Execution::new(sched.clone(), Schedule::new(7));
                with_state($n, config, sched, || {
                    let reset: usize = kani::any();
                    kani::assume(reset <= 2);
                    ExecutionState::with(|s| s.steps_reset_at = reset);
                    let mut st = [0u8; MAXT];
                    let mut det = [false; MAXT];
                    $(
                        let (a, b) = shape_task($i, $fin);
                        st[$i] = a;
                        det[$i] = b;
                    )*
                    // the task that ran last (literal: part of the instance's skeleton)
                    let cur: usize = $cur;
                    set_current(cur);
                    let yield_req: bool = kani::any();
                    if yield_req {
                        ExecutionState::request_yield();
                    }
                    {
                        let mut o = oracle.borrow_mut();
                        $(
                            o.runnable[$i] = st[$i] == 0;
                            o.spurious[$i] = st[$i] == 2;
                        )*
                    }
                    let len0 = CurrentSchedule::len();

                    // ---- the real loop ----
                    let outcome = exec.verif_run_to_completion(false);

                    // ---- specification ----
                    let mut any_runnable = false;
                    let mut unfinished_attached = false;
                    let mut all_runnable_detached = true;
                    $(
                        if st[$i] == 0 { any_runnable = true; if !det[$i] { all_runnable_detached = false; } }
                        if st[$i] != 4 && !det[$i] { unfinished_attached = true; }
                    )*
                    let bound_hit = mode != 0 && len0 - reset >= bound;
                    let o = oracle.borrow();
                    let ran_total = shuttle_engine::verif_support::recorder().resumed_total;
                    if mode == 1 && bound_hit {
                        assert!(outcome == VerifOutcome::StepBoundExceeded, "C13: failing step bound reached but the run did not fail with the step-bound verdict");
                        assert!(o.calls == 0 && ran_total == 0, "C13: a step was taken beyond the step bound");
                        assert!(CurrentSchedule::len() == len0, "C13: schedule grew beyond the step bound");
                        kani::cover!(true, "FailAfter bound hit");
                    } else if mode == 2 && bound_hit {
                        assert!(outcome == VerifOutcome::Ok, "C13: ContinueAfter bound must abandon the execution silently");
                        assert!(o.calls == 0 && ran_total == 0, "C13: a step was taken beyond the step bound");
                        assert!(ExecutionState::with(|s| s.verif_current_task()) == VerifScheduled::Stopped);
                        kani::cover!(true, "ContinueAfter bound hit");
                    } else if !any_runnable || (!unfinished_attached && all_runnable_detached) {
                        // nothing (that matters) can progress: the execution ends here
                        assert!(o.calls == 0, "C03: scheduler consulted although the execution is over");
                        assert!(ran_total == 0, "C03: a task ran although the execution is over");
                        if unfinished_attached {
                            assert!(outcome == VerifOutcome::Deadlock, "C03: unfinished attached task and nothing can run, but no deadlock was reported");
                            kani::cover!(true, "deadlock verdict");
                            kani::cover!(st[0] == 2, "deadlock although a task could wake spuriously");
                        } else {
                            assert!(outcome == VerifOutcome::Ok, "C03: deadlock (or failure) reported although every attached task finished");
                            kani::cover!(true, "normal end");
                        }
                        assert!(CurrentSchedule::len() == len0, "C01: a step was recorded although no task was scheduled");
                    } else {
                        assert!(o.calls >= 1, "C03/C08: a task could run but the scheduler was not asked");
                        assert!(o.cur == Some(cur), "C08: `current` is not the task that ran last");
                        assert!(o.yielding == yield_req, "C08: is_yielding does not reflect the yield request");
                        match o.ret {
                            None => {
                                assert!(outcome == VerifOutcome::Ok, "C08: the scheduler returned None but the execution failed");
                                assert!(ran_total == 0, "C08: a task ran although the scheduler returned None");
                                assert!(o.calls == 1);
                                assert!(CurrentSchedule::len() == len0, "C01: a step was recorded although no task was scheduled");
                                kani::cover!(true, "scheduler stopped the execution");
                            }
                            Some(c) => {
                                assert!(ran(c) == 1 && ran_total == 1, "C08: the task that ran is not (exactly once) the one the scheduler returned");
                                // the decision after the step (taken with one more recorded step and `c` runnable)
                                let bound_hit2 = mode != 0 && len0 + 1 - reset >= bound;
                                if mode == 1 && bound_hit2 {
                                    assert!(outcome == VerifOutcome::StepBoundExceeded, "C13: failing step bound reached but the run did not fail with the step-bound verdict");
                                    assert!(o.calls == 1, "C13: scheduler consulted beyond the step bound");
                                } else if mode == 2 && bound_hit2 {
                                    assert!(outcome == VerifOutcome::Ok, "C13: ContinueAfter bound must abandon the execution silently");
                                    assert!(o.calls == 1, "C13: scheduler consulted beyond the step bound");
                                } else {
                                    assert!(outcome == VerifOutcome::Ok, "C03: the execution failed although a task could run");
                                    let c_run_or_det = if c == 0 { st[0] == 0 || det[0] } else if c == 1 { st[1] == 0 || det[1] } else { st[2] == 0 || det[2] };
                                    let ard2 = all_runnable_detached && c_run_or_det;
                                    if !unfinished_attached && ard2 {
                                        assert!(o.calls == 1, "C03: scheduler consulted although only detached tasks remain");
                                    } else {
                                        assert!(o.calls == 2, "C08: the runtime did not come back to the scheduler after the step");
                                    }
                                }
                                // the step was recorded exactly once, also when the same task continues
                                assert!(CurrentSchedule::len() == len0 + 1, "C01: a scheduling decision was not recorded exactly once");
                                let rec = CurrentSchedule::get_schedule();
                                assert!(rec.steps[2] == ScheduleStep::Task(tid(c)), "C01: recorded step names a different task");
                                std::mem::forget(rec);
                                // a spuriously woken task is runnable when it runs
                                let c_state = if c == 0 { task_state(0) } else if c == 1 { task_state(1) } else { task_state(2) };
                                assert!(c_state == TaskState::Runnable, "C03: the scheduled task is not runnable");
                                // the yield request is consumed by exactly this decision
                                assert!(!ExecutionState::with(|s| s.verif_has_yielded()), "C08: yield request leaked into the next decision");
                                kani::cover!(c == cur, "same task continues");
                                
                            }
                        }
                    }
                });
                std::mem::forget(exec);
            }
        }
    };
}

// One instance per (task that ran last, set of finished tasks): the control skeleton is literal so that
// every index into the task table is a constant; everything else is symbolic.
decision_harness!(c03_d1_c0_f0, 1, 0, [(0, false)]);
decision_harness!(c03_d1_c0_f1, 1, 0, [(0, true)]);
decision_harness!(c03_d2_c0_f00, 2, 0, [(0, false), (1, false)]);
decision_harness!(c03_d2_c0_f01, 2, 0, [(0, false), (1, true)]);
decision_harness!(c03_d2_c0_f10, 2, 0, [(0, true), (1, false)]);
decision_harness!(c03_d2_c0_f11, 2, 0, [(0, true), (1, true)]);
decision_harness!(c03_d2_c1_f00, 2, 1, [(0, false), (1, false)]);
decision_harness!(c03_d2_c1_f01, 2, 1, [(0, false), (1, true)]);
decision_harness!(c03_d2_c1_f10, 2, 1, [(0, true), (1, false)]);
decision_harness!(c03_d3_c0_f000, 3, 0, [(0, false), (1, false), (2, false)]);
decision_harness!(c03_d3_c1_f000, 3, 1, [(0, false), (1, false), (2, false)]);
decision_harness!(c03_d3_c2_f001, 3, 2, [(0, false), (1, false), (2, true)]);
decision_harness!(c03_d3_c0_f010, 3, 0, [(0, false), (1, true), (2, false)]);
decision_harness!(c03_d3_c1_f100, 3, 1, [(0, true), (1, false), (2, false)]);

// ---- exit_current_truncates_execution (C02: task exit is a scheduling point exactly when it can
//      cut off detached tasks) ------------------------------------------------------------------------

macro_rules! truncate_harness {
    ($name:ident, $n:literal, $cur:literal, [$(($i:literal, $fin:literal)),*]) => {
        crate::harness! {
            #[kani::unwind(5)]
            fn $name() {
                let sched: Rc<RefCell<dyn Scheduler>> = Rc::new(RefCell::new(NullSched));
                with_state($n, Config::new(), sched, || {
                    let mut st = [0u8; MAXT];
                    let mut det = [false; MAXT];
                    $(
                        let (a, b) = shape_task($i, $fin);
                        st[$i] = a;
                        det[$i] = b;
                    )*
                    let cur: usize = $cur;
                    // the exiting task is running, hence unfinished and runnable
                    kani::assume(st[cur] == 0);
                    set_current(cur);
                    let got = ExecutionState::with(|s| s.exit_current_truncates_execution());
                    let mut n_unf_att = 0;
                    let mut unf_det = false;
                    $(
                        if st[$i] != 4 && !det[$i] { n_unf_att += 1; }
                        if st[$i] != 4 && det[$i] { unf_det = true; }
                    )*
                    // specification from the property text: exiting truncates iff the exiting task is the
                    // last unfinished attached one and some detached task is unfinished; the main task's
                    // exit is always made a scheduling point (documented simplification).
                    let want = if cur == 0 { true } else if det[cur] { false } else { n_unf_att == 1 && unf_det };
                    assert!(got == want, "C02: exit is (not) treated as a scheduling point contrary to the truncation rule");
                    kani::cover!(got && cur != 0, "non-main exit truncates");
                    kani::cover!(!got, "exit does not truncate");
                });
            }
        }
    };
}

truncate_harness!(c02_exit_n2_c0_f00, 2, 0, [(0, false), (1, false)]);
truncate_harness!(c02_exit_n2_c1_f00, 2, 1, [(0, false), (1, false)]);
truncate_harness!(c02_exit_n3_c1_f000, 3, 1, [(0, false), (1, false), (2, false)]);
truncate_harness!(c02_exit_n3_c2_f000, 3, 2, [(0, false), (1, false), (2, false)]);
truncate_harness!(c02_exit_n3_c1_f100, 3, 1, [(0, true), (1, false), (2, false)]);
truncate_harness!(c02_exit_n3_c2_f010, 3, 2, [(0, false), (1, true), (2, false)]);
