//! Kani proof harnesses over the real shuttle-engine / shuttle-schedulers / shuttle-std code.
//! Built out of tree by /verif/check against a scratch copy of /repo's working tree.
//! The same harnesses also build natively (cfg(not(kani))) against `shim`, a stand-in for the
//! `kani` crate, for native validation and counterexample replay (src/bin/native.rs).
#![allow(unused, clippy::all)]
#![recursion_limit = "1024"]
#![cfg_attr(kani, feature(stmt_expr_attributes))]

#[cfg(not(kani))]
pub mod shim;
pub mod stubs;
pub mod env;
pub mod c03;
pub mod c04;
pub mod c05;
pub mod c09;
pub mod c16;
pub mod c18;
pub mod c20;
pub mod kp;
#[cfg(feature = "vc")]
pub mod c15;
#[cfg(not(kani))]
pub mod native_table;
