//! Kani proof harnesses over the real shuttle-engine / shuttle-schedulers / shuttle-std code.
//! Built out of tree by /verif/check against a scratch copy of /repo's working tree.
#![allow(unused, clippy::all)]
#![recursion_limit = "1024"]
#![cfg_attr(kani, feature(stmt_expr_attributes))]

pub mod stubs;
#[cfg(kani)]
pub mod env;
#[cfg(kani)]
pub mod c18;
#[cfg(kani)]
pub mod c16;
#[cfg(kani)]
pub mod c09;
#[cfg(all(kani, feature = "vc"))]
pub mod c15;
