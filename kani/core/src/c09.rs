//! C09 — DfsScheduler visits every leaf of an arbitrary choice tree exactly once, then stops.
//!
//! The harness interprets a symbolic choice tree: heap-indexed nodes (root = 1), `kind[node]` is
//! 0 (the execution ends here), 1 (one runnable task) or 2 (two runnable tasks); nodes at depth D
//! are leaves. The real `DfsScheduler` is driven exactly as the runtime drives it
//! (`new_execution`, then `next_task` per scheduling point with the runnable list in ascending id
//! order). One solver query covers every tree of that depth (3^(2^D-1) trees).
#[cfg(not(kani))]
use crate::shim as kani;
use shuttle_engine::runtime::task::clock::VectorClock;
use shuttle_engine::scheduler::{Scheduler, Task, TaskId};
use shuttle_schedulers::DfsScheduler;

fn mk_task(id: usize) -> Task {
    Task::verif_stub(TaskId::from(id), VectorClock::new(), None)
}

/// `ID1` is the id of the second task offered (1 = contiguous ids, 2 = a gap: the scheduler
/// finds the next sibling by position in the list, not by id arithmetic).
/// Depth-2 trees (nodes 1..=7: internal 1..=3, leaves 4..=7). Harness loops are unrolled.
fn dfs_tree2<const ID1: usize>(max_iterations: Option<usize>) {
    dfs_tree2_lit::<ID1, 9, 9, 9>(max_iterations)
}

/// As `dfs_tree2`, with the kinds of nodes 1, 2, 3 literal where the parameter is 0..=2 and symbolic where it is 9
/// (a fully symbolic tree makes the length of the scheduler's `levels` vector symbolic at every call and exhausts
/// the solver's memory; with literal kinds the control flow inside the scheduler is concrete).
fn dfs_tree2_lit<const ID1: usize, const K1: u8, const K2: u8, const K3: u8>(max_iterations: Option<usize>) {
    const NODES: usize = 8;
    const D: usize = 2;
    let t0 = mk_task(0);
    let t1 = mk_task(ID1);
    let mut kind = [0u8; NODES];
    let lit = [0u8, K1, K2, K3];
    let mut i = 1;
    crate::unroll!(3, {
        if lit[i] <= 2 {
            kind[i] = lit[i];
        } else {
            let k: u8 = kani::any();
            kind[i] = k % 3;
        }
        i += 1;
    });
    // reachable leaves of the tree
    let mut reach = [false; NODES];
    let mut leaf = [false; NODES];
    reach[1] = true;
    let mut n_leaves = 0usize;
    let mut node = 1;
    crate::unroll!(7, {
        if reach[node] {
            if node >= NODES / 2 || kind[node] == 0 {
                leaf[node] = true;
                n_leaves += 1;
            } else {
                reach[2 * node] = true;
                if kind[node] == 2 {
                    reach[2 * node + 1] = true;
                }
            }
        }
        node += 1;
    });

    let mut sched = DfsScheduler::new(max_iterations, true);
    let mut visited = [false; NODES];
    let mut execs = 0usize;
    let mut first_seed: u64 = 0;
    let mut first_draw: u64 = 0;
    let mut terminated = false;
    // at most 4 leaves: 4 executions and a fifth call that must return None
    crate::unroll!(5, {
        if !terminated {
            let s = sched.new_execution();
            match s {
                None => {
                    terminated = true;
                }
                Some(sch) => {
                    // same fixed data stream in every execution
                    let d = sched.next_u64();
                    if execs == 0 {
                        first_seed = sch.seed;
                        first_draw = d;
                    } else {
                        assert!(sch.seed == first_seed, "C09: DFS execution reports a different data seed");
                        assert!(d == first_draw, "C09: DFS data stream differs between executions");
                    }
                    std::mem::forget(sch);
                    let mut node = 1usize;
                    let mut current: Option<TaskId> = None;
                    let mut ended = false;
                    crate::unroll!(2, {
                        if !ended {
                            if kind[node] == 0 {
                                ended = true;
                            } else {
                                let c = if kind[node] == 1 {
                                    let r: [&Task; 1] = [&t0];
                                    sched.next_task(&r, current, false)
                                } else {
                                    let r: [&Task; 2] = [&t0, &t1];
                                    sched.next_task(&r, current, false)
                                };
                                let c = c.unwrap();
                                let right = c == t1.id();
                                assert!(right || c == t0.id(), "C09: DFS chose a task that was not offered");
                                assert!(!(right && kind[node] == 1), "C09: DFS chose a task that was not offered");
                                node = 2 * node + if right { 1 } else { 0 };
                                current = Some(c);
                            }
                        }
                    });
                    assert!(leaf[node]);
                    assert!(!visited[node], "C09: DFS ran the same schedule twice");
                    visited[node] = true;
                    execs += 1;
                }
            }
        }
    });
    match max_iterations {
        None => {
            assert!(terminated, "C09: DFS did not stop after the tree was exhausted");
            assert!(execs == n_leaves, "C09: DFS skipped a schedule");
            let mut n = 1;
            crate::unroll!(7, {
                assert!(visited[n] == leaf[n], "C09: DFS skipped a schedule");
                n += 1;
            });
        }
        Some(k) => {
            let want = if k < n_leaves { k } else { n_leaves };
            assert!(execs == want, "C09: iteration bound not honoured exactly");
            assert!(terminated, "C09: DFS did not stop at the iteration bound / end of the tree");
        }
    }
    if K1 == 9 && K2 == 9 && K3 == 9 {
        kani::cover!(n_leaves >= 3, "tree with at least 3 leaves");
        kani::cover!(n_leaves == 1, "tree with a single schedule");
        kani::cover!(n_leaves == 4, "complete binary tree");
    }
    kani::cover!(execs >= 1 || max_iterations == Some(0), "at least one execution ran");
    std::mem::forget(sched);
    std::mem::forget(t0);
    std::mem::forget(t1);
}

crate::harness! {
    #[kani::unwind(6)]
    fn c09_dfs_depth2() { dfs_tree2::<1>(None); }
}
crate::harness! {
    #[kani::unwind(6)]
    fn c09_dfs_depth2_gap_ids() { dfs_tree2::<2>(None); }
}
crate::harness! {
    #[kani::unwind(6)]
    fn c09_dfs_depth2_maxiter() {
        let k: usize = kani::any();
        kani::assume(k <= 5);
        dfs_tree2::<1>(Some(k));
    }
}

fn any_bound() -> Option<usize> {
    if kani::any() {
        None
    } else {
        Some((kani::any::<u8>() % 6) as usize)
    }
}

// probes: one symbolic node, the other two literal
crate::harness! {
    #[kani::unwind(6)]
    fn c09_dfs_sym_root_22() { dfs_tree2_lit::<1, 9, 2, 2>(any_bound()); }
}
crate::harness! {
    #[kani::unwind(6)]
    fn c09_dfs_2_sym_2() { dfs_tree2_lit::<1, 2, 9, 2>(any_bound()); }
}
crate::harness! {
    #[kani::unwind(6)]
    fn c09_dfs_lit_222() { dfs_tree2_lit::<1, 2, 2, 2>(any_bound()); }
}
