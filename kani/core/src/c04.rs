//! C04 — Mutex / RwLock non-blocking paths on a real execution state (literal control skeletons).
//! try_lock / try_read / try_write succeed exactly when the lock is available, re-entrant attempts
//! fail, and a failed attempt leaves the lock unchanged (so that it is available again once the
//! guards that were actually obtained are dropped).
#[cfg(not(kani))]
use crate::shim as kani;
use crate::env::*;
use shuttle_engine::scheduler::Scheduler;
use shuttle_engine::Config;
use shuttle_std::sync::{Mutex, RwLock};
use std::cell::RefCell;
use std::rc::Rc;

fn sched() -> Rc<RefCell<dyn Scheduler>> {
    Rc::new(RefCell::new(NullSched))
}

crate::harness! {
    #[kani::unwind(5)]
    fn c04_rwlock_reentrant_try_read_leaves_lock_unchanged() {
        with_state(1, Config::new(), sched(), || {
            // constructed in a const context: `RwLock::new` is #[track_caller] and Kani has no caller_location
            const L: RwLock<u8> = RwLock::new(7);
            let l = L;
            set_current(0);
            let r1 = l.try_read();
            assert!(r1.is_ok(), "C04: try_read on a free RwLock failed");
            // a re-entrant attempt is refused (Shuttle diagnoses it instead of risking a writer-priority deadlock)
            let r2 = l.try_read();
            assert!(r2.is_err(), "C04: re-entrant try_read succeeded");
            std::mem::forget(r2);
            drop(r1);
            // every guard that was obtained has been dropped: the lock must be free again
            let w = l.try_write();
            assert!(w.is_ok(), "C04: a failed try_read left the RwLock changed (a later try_write cannot succeed)");
            kani::cover!(w.is_ok(), "write lock obtained after the failed re-entrant try_read");
            std::mem::forget(w);
            std::mem::forget(l);
        });
    }
}

crate::harness! {
    #[kani::unwind(5)]
    fn c04_rwlock_try_paths_two_tasks() {
        with_state(2, Config::new(), sched(), || {
            const L: RwLock<u8> = RwLock::new(0);
            let l = L;
            set_current(0);
            let r0 = l.try_read();
            assert!(r0.is_ok());
            set_current(1);
            // a second reader is admitted, a writer is not
            let r1 = l.try_read();
            assert!(r1.is_ok(), "C04: second reader refused while only readers hold the lock");
            let w1 = l.try_write();
            assert!(w1.is_err(), "C04: try_write succeeded while the lock is held for reading");
            std::mem::forget(w1);
            drop(r1);
            set_current(0);
            drop(r0);
            set_current(1);
            let w = l.try_write();
            assert!(w.is_ok(), "C04: try_write failed on a free RwLock");
            set_current(0);
            let r = l.try_read();
            assert!(r.is_err(), "C04: try_read succeeded while the lock is held for writing");
            kani::cover!(true, "reader/writer exclusion sequence completed");
            std::mem::forget(r);
            std::mem::forget(w);
            std::mem::forget(l);
        });
    }
}

crate::harness! {
    #[kani::unwind(5)]
    fn c04_mutex_try_paths_two_tasks() {
        with_state(2, Config::new(), sched(), || {
            let v: u8 = 9;
            const M: Mutex<u8> = Mutex::new(9);
            let m = M;
            set_current(0);
            let g0 = m.try_lock();
            assert!(g0.is_ok(), "C04: try_lock on a free Mutex failed");
            set_current(1);
            let g1 = m.try_lock();
            assert!(g1.is_err(), "C04: try_lock succeeded while the Mutex is held");
            std::mem::forget(g1);
            set_current(0);
            let seen = **g0.as_ref().ok().unwrap();
            assert!(seen == v);
            drop(g0);
            set_current(1);
            let g = m.try_lock();
            assert!(g.is_ok(), "C04: a failed try_lock left the Mutex changed (it is not available after the holder released it)");
            kani::cover!(true, "mutex handed over after a failed try_lock");
            std::mem::forget(g);
            std::mem::forget(m);
        });
    }
}
