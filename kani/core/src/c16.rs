//! C16 — schedule strings: varint kernels, round trip, malformed input.
#[cfg(not(kani))]
use crate::shim as kani;
use shuttle_engine::scheduler::serialization::verif_exports::{space_needed, ReadVarInt, WriteVarInt, SCHEDULE_MAGIC_V2};
use shuttle_engine::scheduler::serialization::{deserialize_schedule, serialize_schedule};
use shuttle_engine::scheduler::{Schedule, ScheduleStep, TaskId};

// ---- varint kernels, all u64 -----------------------------------------------------------------------

crate::harness! {
    #[kani::unwind(12)]
    fn c16_varint_roundtrip_all_u64() {
        let v: u64 = kani::any();
        // `impl Write for &mut [u8]`: no allocation in the formula
        let mut arr = [0u8; 12];
        let n = {
            let mut w: &mut [u8] = &mut arr[..];
            let r = w.write_u64_varint(v);
            let ok = r.is_ok();
            // io::Error drop glue is not the subject
            std::mem::forget(r);
            assert!(ok, "C16: varint writer failed on a 12-byte buffer");
            12 - w.len()
        };
        let buf = &arr[..n];
        assert!(n == space_needed(v), "C16: varint length differs from space_needed");
        assert!(n >= 1 && n <= 10);
        let mut rd: &[u8] = &buf[..];
        let back = rd.read_u64_varint();
        let same = matches!(back, Ok(x) if x == v);
        std::mem::forget(back);
        assert!(same, "C16: varint does not round-trip");
        assert!(rd.is_empty(), "C16: varint reader did not consume exactly the bytes written");
        kani::cover!(n == 10, "ten-byte varint");
        kani::cover!(n == 1, "one-byte varint");
        kani::cover!(n == 9, "nine-byte varint");
    }
}

crate::harness! {
    #[kani::unwind(12)]
    fn c16_varint_read_total_11_bytes() {
        // every byte string of length <= 11: the reader returns a value or an error, never panics,
        // never reads more than 10 bytes
        let bytes: [u8; 11] = kani::any();
        let len: usize = kani::any();
        kani::assume(len <= 11);
        let mut rd: &[u8] = &bytes[..len];
        let r = rd.read_u64_varint();
        let consumed = len - rd.len();
        match r {
            Ok(v) => {
                assert!(consumed >= 1 && consumed <= 10);
                // the value is exactly the little-endian base-128 number that was read, and it fits in 64 bits
                // (an over-long or overflowing encoding must be an error, not a truncated value)
                let mut exact: u128 = 0;
                let mut i = 0;
                while i < 10 {
                    if i < consumed {
                        exact += ((bytes[i] & 0x7f) as u128) << (7 * i);
                    }
                    i += 1;
                }
                assert!(exact == v as u128, "C16: varint reader accepted an encoding that does not fit in 64 bits (or decoded it wrongly)");
                assert!(bytes[consumed - 1] & 0x80 == 0, "C16: varint reader stopped on a continuation byte");
                // re-encoding never needs more bytes than were consumed (encoder is minimal)
                assert!(space_needed(v) <= consumed, "C16: decoded value needs more bytes than were read");
                kani::cover!(consumed == 10, "ten-byte varint accepted");
                std::mem::forget(v);
            }
            Err(e) => {
                kani::cover!(len == 0, "empty input rejected");
                kani::cover!(len == 11, "over-long varint rejected");
                std::mem::forget(e);
            }
        }
    }
}

// ---- the hex layer as an environment stub ------------------------------------------------------------
//
// Symbolic *strings* are out of reach: `str::chars` forks into the multi-byte UTF-8 paths for every
// symbolic byte and `String::from_iter` / `hex::decode` grow their buffers through realloc with a
// symbolic length (measured: a 2-character symbolic string exhausts 12 GB). The third-party `hex`
// crate is therefore replaced by an environment stub (DESIGN.md 2.3): `hex::encode` hands the bytes
// to the harness and returns an empty string, `hex::decode` ignores its argument and returns the
// bytes the harness chose. The real decoder front-end (whitespace filter) still runs, on that
// empty string; everything after `hex::decode(..).ok()?` is the real code on arbitrary bytes.

static mut HEX_BYTES: Option<Vec<u8>> = None;
static mut HEX_FAIL: bool = false;

pub fn hex_encode_stub<T: AsRef<[u8]>>(data: T) -> String {
    let b = data.as_ref();
    let mut v = Vec::with_capacity(b.len());
    let mut i = 0;
    while i < b.len() {
        v.push(b[i]);
        i += 1;
    }
    unsafe { HEX_BYTES = Some(v) };
    String::new()
}

pub fn hex_decode_stub<T: AsRef<[u8]>>(_data: T) -> Result<Vec<u8>, hex::FromHexError> {
    unsafe {
        if HEX_FAIL {
            return Err(hex::FromHexError::OddLength);
        }
        match HEX_BYTES.take() {
            Some(v) => Ok(v),
            None => Err(hex::FromHexError::InvalidStringLength),
        }
    }
}

/// Like `harness!`, plus the hex-layer stub.
macro_rules! hex_harness {
    ($(#[$m:meta])* fn $name:ident() $body:block) => {
        crate::harness! {
            #[kani::stub(hex::encode, crate::c16::hex_encode_stub)]
            #[kani::stub(hex::decode, crate::c16::hex_decode_stub)]
            $(#[$m])*
            fn $name() $body
        }
    };
}

// ---- round trip of whole schedules (binary level) -----------------------------------------------------

fn any_step(id_bits: u32) -> ScheduleStep {
    if kani::any() {
        ScheduleStep::Random
    } else {
        let id: usize = kani::any();
        if id_bits < usize::BITS {
            kani::assume(id < (1usize << id_bits));
        }
        ScheduleStep::Task(TaskId::from(id))
    }
}

fn roundtrip(seed: u64, steps: Vec<ScheduleStep>) {
    let s = Schedule { seed, steps };
    let enc = serialize_schedule(&s);
    let dec = deserialize_schedule(&enc);
    match dec {
        Some(d) => {
            assert!(d.seed == s.seed, "C16: seed does not round-trip");
            assert!(d.steps.len() == s.steps.len(), "C16: schedule length does not round-trip");
            let mut i = 0;
            while i < s.steps.len() {
                assert!(d.steps[i] == s.steps[i], "C16: step does not round-trip");
                i += 1;
            }
            std::mem::forget(d);
        }
        None => assert!(false, "C16: serialized schedule is rejected by the parser"),
    }
    std::mem::forget(enc);
    std::mem::forget(s);
}

hex_harness! {
    #[kani::unwind(12)]
    fn c16_roundtrip_0steps_all_seeds() {
        let seed: u64 = kani::any();
        roundtrip(seed, Vec::new());
    }
}

hex_harness! {
    #[kani::unwind(12)]
    fn c16_roundtrip_1step_all_ids() {
        // any usize task id (all bit widths 1..=64) or a random marker; seed at a varint boundary
        let seed: u64 = if kani::any() { 127 } else { 128 };
        let step = if kani::any() {
            ScheduleStep::Random
        } else {
            let id: usize = kani::any();
            ScheduleStep::Task(TaskId::from(id))
        };
        kani::cover!(matches!(step, ScheduleStep::Task(t) if usize::from(t) > (1usize << 63)), "64-bit task id");
        kani::cover!(matches!(step, ScheduleStep::Task(t) if usize::from(t) == 0), "task id 0");
        let mut steps = Vec::with_capacity(1);
        steps.push(step);
        roundtrip(seed, steps);
    }
}

/// One task step whose id has exactly `W` significant bits (so that every length in the encoder and
/// decoder is concrete for the solver and only the id's value is symbolic), followed by a random marker.
fn roundtrip_width<const W: u32>() {
    let id: usize = kani::any();
    kani::assume(usize::BITS - id.leading_zeros() == W || (W == 1 && id == 0));
    let mut steps = Vec::with_capacity(2);
    steps.push(ScheduleStep::Task(TaskId::from(id)));
    steps.push(ScheduleStep::Random);
    roundtrip(5, steps);
}

/// Encoder alone: a task id of `W` significant bits is serialised without crashing and with the
/// documented header (magic, id width, step count).
fn serialize_width<const W: u32>() {
    let id: usize = kani::any();
    kani::assume(usize::BITS - id.leading_zeros() == W);
    let mut steps = Vec::with_capacity(1);
    steps.push(ScheduleStep::Task(TaskId::from(id)));
    let s = Schedule { seed: 5, steps };
    let enc = serialize_schedule(&s);
    #[cfg(kani)]
    {
        let bytes = unsafe { HEX_BYTES.take() }.unwrap();
        assert!(bytes[0] == SCHEDULE_MAGIC_V2 && bytes[1] == W as u8 && bytes[2] == 1 && bytes[3] == 5,
            "C16: serialised header is wrong");
        std::mem::forget(bytes);
    }
    std::mem::forget(enc);
    std::mem::forget(s);
}

hex_harness! {
    #[kani::unwind(12)]
    fn c16_serialize_width64() { serialize_width::<64>(); }
}
hex_harness! {
    #[kani::unwind(12)]
    fn c16_serialize_width9() { serialize_width::<9>(); }
}

hex_harness! {
    #[kani::unwind(12)]
    fn c16_roundtrip_width64() { roundtrip_width::<64>(); }
}
hex_harness! {
    #[kani::unwind(12)]
    fn c16_roundtrip_width63() { roundtrip_width::<63>(); }
}
hex_harness! {
    #[kani::unwind(12)]
    fn c16_roundtrip_width8() { roundtrip_width::<8>(); }
}
hex_harness! {
    #[kani::unwind(12)]
    fn c16_roundtrip_width1() { roundtrip_width::<1>(); }
}

hex_harness! {
    #[kani::unwind(12)]
    fn c16_roundtrip_2steps() {
        let mut steps = Vec::with_capacity(2);
        steps.push(any_step(16));
        steps.push(any_step(16));
        roundtrip(u64::MAX, steps);
    }
}

hex_harness! {
    #[kani::unwind(12)]
    fn c16_roundtrip_3steps() {
        let mut steps = Vec::with_capacity(3);
        steps.push(any_step(8));
        steps.push(any_step(8));
        steps.push(any_step(8));
        roundtrip(1 << 63, steps);
    }
}

// ---- malformed input (binary level): every byte vector of length N --------------------------------------

fn malformed_bin<const N: usize>() {
    let body: [u8; N] = kani::any();
    let mut v = Vec::with_capacity(N);
    let mut i = 0;
    while i < N {
        v.push(body[i]);
        i += 1;
    }
    #[cfg(not(kani))]
    let native_hex = hex::encode(&v);
    unsafe { HEX_BYTES = Some(v) };
    // must return, not panic
    #[cfg(kani)]
    let r = deserialize_schedule("");
    #[cfg(not(kani))]
    let r = deserialize_schedule(&native_hex);
    if N >= 1 {
        assert!(r.is_none() || body[0] == SCHEDULE_MAGIC_V2, "C16: unknown version accepted");
    }
    kani::cover!(r.is_none(), "a byte vector is rejected");
    std::mem::forget(r);
}

hex_harness! {
    #[kani::unwind(12)]
    fn c16_malformed_bin0() { malformed_bin::<0>(); }
}
hex_harness! {
    #[kani::unwind(12)]
    fn c16_malformed_bin1() { malformed_bin::<1>(); }
}
hex_harness! {
    #[kani::unwind(12)]
    fn c16_malformed_bin2() { malformed_bin::<2>(); }
}
hex_harness! {
    #[kani::unwind(12)]
    fn c16_malformed_bin3() { malformed_bin::<3>(); }
}
hex_harness! {
    #[kani::unwind(12)]
    fn c16_malformed_bin4() { malformed_bin::<4>(); }
}
hex_harness! {
    #[kani::unwind(12)]
    fn c16_malformed_bin5() { malformed_bin::<5>(); }
}
hex_harness! {
    #[kani::unwind(12)]
    fn c16_malformed_bin6() { malformed_bin::<6>(); }
}

// ---- header validation: one header field is a varint of exactly N bytes (all positions concrete, all payload
// bits symbolic), the other two are single bytes; no step data follows ----------------------------------------

fn header_field<const POS: usize, const N: usize>() {
    let raw: [u8; N] = kani::any();
    let a: u8 = kani::any::<u8>() & 0x7f;
    let b: u8 = kani::any::<u8>() & 0x7f;
    // The announced length is checked behind the entry of step decoding, where the solver's path ends; it is fixed to
    // 0 when it is one of the single-byte fields so that a counterexample (an invalid header that gets through)
    // replays natively as "decoded into the empty schedule" rather than being rejected by that later check.
    let a = if POS == 0 { 0 } else { a };
    let b = if POS == 2 { 0 } else { b };
    let mut v = Vec::with_capacity(N + 3);
    v.push(SCHEDULE_MAGIC_V2);
    if POS == 1 {
        v.push(a);
    }
    if POS == 2 {
        v.push(a);
        v.push(b);
    }
    // reference value of the LEB128 group sequence (u128: a tenth group can carry bits above 63)
    let mut big: u128 = 0;
    let mut last = 0u8;
    let mut i = 0;
    while i < N {
        let byte = if i + 1 < N { raw[i] | 0x80 } else { raw[i] & 0x7f };
        v.push(byte);
        big |= ((byte & 0x7f) as u128) << (7 * i);
        last = byte;
        i += 1;
    }
    if POS == 0 {
        v.push(a);
        v.push(b);
    }
    if POS == 1 {
        v.push(b);
    }
    // a ten-byte varint is valid only with a final byte of exactly 1 (bit 63)
    let varint_ok = N < 10 || last == 1;
    let (w, l, sd) = match POS {
        0 => (big, a as u128, b as u128),
        1 => (a as u128, big, b as u128),
        _ => (a as u128, b as u128, big),
    };
    let header_ok = varint_ok && w >= 1 && w <= usize::BITS as u128;
    unsafe { HEADER_OK = header_ok };
    #[cfg(not(kani))]
    let native_hex = hex::encode(&v);
    unsafe { HEX_BYTES = Some(v) };
    #[cfg(kani)]
    let r = deserialize_schedule("");
    #[cfg(not(kani))]
    let r = deserialize_schedule(&native_hex);
    // Under Kani the path of a header that enters step decoding ends there (`bitslice_from_slice_stub`, which asserts
    // that the header was valid); natively the whole parser runs. Whatever returns must be right either way: no step
    // data follows, so only the empty schedule can be announced, and only by a valid header.
    assert!(
        r.is_some() == (header_ok && l == 0),
        "C16: header validation is wrong (width must be 1..=64, the announced length must fit the data, over-long varints are invalid)"
    );
    if let Some(d) = &r {
        assert!(d.seed as u128 == sd && d.steps.is_empty(), "C16: header fields decoded wrongly");
    }
    kani::cover!(r.is_none() && (w > 64 || !varint_ok), "an over-wide task id width / over-long varint is rejected");
    std::mem::forget(r);
}

static mut HEADER_OK: bool = false;

/// Stand-in for `BitSlice::from_slice`, the entry of step decoding: everything behind it goes through the `bitvec`
/// crate, which CBMC cannot encode within 12 GB (DESIGN.md 2.1). The path ends here; what is checked is that the
/// header validation in front of it lets only valid headers through.
#[cfg(kani)]
pub fn bitslice_from_slice_stub<T: bitvec::store::BitStore, O: bitvec::order::BitOrder>(_s: &[T]) -> &bitvec::slice::BitSlice<T, O> {
    assert!(unsafe { HEADER_OK }, "C16: header validation let an invalid header through to step decoding");
    kani::cover!(true, "a valid header reaches step decoding");
    kani::assume(false);
    unreachable!()
}

hex_harness! {
    #[kani::stub(bitvec::slice::BitSlice::from_slice, crate::c16::bitslice_from_slice_stub)]
    #[kani::unwind(12)]
    fn c16_header_width_1() { header_field::<0, 1>(); }
}
hex_harness! {
    #[kani::stub(bitvec::slice::BitSlice::from_slice, crate::c16::bitslice_from_slice_stub)]
    #[kani::unwind(12)]
    fn c16_header_width_2() { header_field::<0, 2>(); }
}
hex_harness! {
    #[kani::stub(bitvec::slice::BitSlice::from_slice, crate::c16::bitslice_from_slice_stub)]
    #[kani::unwind(12)]
    fn c16_header_width_5() { header_field::<0, 5>(); }
}
hex_harness! {
    #[kani::stub(bitvec::slice::BitSlice::from_slice, crate::c16::bitslice_from_slice_stub)]
    #[kani::unwind(12)]
    fn c16_header_width_9() { header_field::<0, 9>(); }
}
hex_harness! {
    #[kani::stub(bitvec::slice::BitSlice::from_slice, crate::c16::bitslice_from_slice_stub)]
    #[kani::unwind(12)]
    fn c16_header_width_10() { header_field::<0, 10>(); }
}
hex_harness! {
    #[kani::stub(bitvec::slice::BitSlice::from_slice, crate::c16::bitslice_from_slice_stub)]
    #[kani::unwind(12)]
    fn c16_header_len_5() { header_field::<1, 5>(); }
}
hex_harness! {
    #[kani::stub(bitvec::slice::BitSlice::from_slice, crate::c16::bitslice_from_slice_stub)]
    #[kani::unwind(12)]
    fn c16_header_len_9() { header_field::<1, 9>(); }
}
hex_harness! {
    #[kani::stub(bitvec::slice::BitSlice::from_slice, crate::c16::bitslice_from_slice_stub)]
    #[kani::unwind(12)]
    fn c16_header_len_10() { header_field::<1, 10>(); }
}
hex_harness! {
    #[kani::stub(bitvec::slice::BitSlice::from_slice, crate::c16::bitslice_from_slice_stub)]
    #[kani::unwind(12)]
    fn c16_header_seed_5() { header_field::<2, 5>(); }
}
hex_harness! {
    #[kani::stub(bitvec::slice::BitSlice::from_slice, crate::c16::bitslice_from_slice_stub)]
    #[kani::unwind(12)]
    fn c16_header_seed_9() { header_field::<2, 9>(); }
}
hex_harness! {
    #[kani::stub(bitvec::slice::BitSlice::from_slice, crate::c16::bitslice_from_slice_stub)]
    #[kani::unwind(12)]
    fn c16_header_seed_10() { header_field::<2, 10>(); }
}

// ---- step decoding: a well-formed header with literal id width W and one symbolic data byte -------------------

fn steps_1byte<const W: usize>() {
    let len: u8 = kani::any();
    kani::assume(len <= 9);
    let data: u8 = kani::any();
    let mut v = Vec::with_capacity(5);
    v.push(SCHEDULE_MAGIC_V2);
    v.push(W as u8);
    v.push(len);
    v.push(3u8);
    v.push(data);
    #[cfg(not(kani))]
    let native_hex = hex::encode(&v);
    unsafe { HEX_BYTES = Some(v) };
    #[cfg(kani)]
    let r = deserialize_schedule("");
    #[cfg(not(kani))]
    let r = deserialize_schedule(&native_hex);
    // reference decoder over the 8 data bits (least significant bit first)
    let mut ok = len <= 8;
    let mut off = 0usize;
    let mut exp = [0usize; 8]; // usize::MAX = random marker
    let mut i = 0usize;
    crate::unroll!(8, {
        if ok && i < len as usize {
            if off >= 8 {
                ok = false;
            } else if (data >> off) & 1 == 1 {
                exp[i] = usize::MAX;
                off += 1;
            } else if off + 1 + W > 8 {
                ok = false;
            } else {
                exp[i] = ((data as usize) >> (off + 1)) & ((1usize << W) - 1);
                off += 1 + W;
            }
        }
        i += 1;
    });
    assert!(r.is_some() == ok, "C16: a cut-short step sequence must be rejected and a complete one decoded");
    if let Some(d) = &r {
        assert!(d.seed == 3 && d.steps.len() == len as usize, "C16: header fields decoded wrongly");
        let mut j = 0usize;
        while j < d.steps.len() {
            let want = if exp[j] == usize::MAX { ScheduleStep::Random } else { ScheduleStep::Task(TaskId::from(exp[j])) };
            assert!(d.steps[j] == want, "C16: step decoded wrongly");
            j += 1;
        }
    }
    kani::cover!(r.is_some() && len >= 2, "a schedule of at least two steps is decoded");
    kani::cover!(r.is_none() && len <= 8, "a cut-short schedule is rejected");
    std::mem::forget(r);
}

hex_harness! {
    #[kani::unwind(12)]
    fn c16_steps_1byte_w1() { steps_1byte::<1>(); }
}
hex_harness! {
    #[kani::unwind(12)]
    fn c16_steps_1byte_w3() { steps_1byte::<3>(); }
}
hex_harness! {
    #[kani::unwind(12)]
    fn c16_steps_1byte_w7() { steps_1byte::<7>(); }
}

// ---- encoder, up to the entry of step packing: the bit vector it allocates can hold every step at the id width the
// largest task id needs (at least one bit). `BitVec::repeat` (what `bitvec![..; n]` expands to) is the first call into
// the `bitvec` crate; the path ends there. ------------------------------------------------------------------------

static mut NEEDED_BITS: usize = 0;

#[cfg(kani)]
pub fn bitvec_repeat_stub<T: bitvec::store::BitStore, O: bitvec::order::BitOrder>(_bit: bool, len: usize) -> bitvec::vec::BitVec<T, O> {
    assert!(len >= unsafe { NEEDED_BITS }, "C16: the encoder's id width cannot hold the largest task id (or is 0)");
    kani::cover!(true, "the encoder reaches step packing");
    kani::assume(false);
    unreachable!()
}

fn bit_len(x: usize) -> usize {
    (usize::BITS - x.leading_zeros()) as usize
}

fn encoder_width<const N: usize>() {
    let mut steps = Vec::with_capacity(N);
    let mut max_id = 0usize;
    let mut tasks = 0usize;
    let mut i = 0;
    while i < N {
        if kani::any() {
            steps.push(ScheduleStep::Random);
        } else {
            let id: usize = kani::any();
            if id > max_id {
                max_id = id;
            }
            tasks += 1;
            steps.push(ScheduleStep::Task(TaskId::from(id)));
        }
        i += 1;
    }
    // a task step needs 1 + W bits, W = significant bits of the largest id, at least 1 (the parser rejects a width of 0)
    let w = if bit_len(max_id) == 0 { 1 } else { bit_len(max_id) };
    unsafe { NEEDED_BITS = tasks * (1 + w) + (N - tasks) };
    kani::cover!(max_id == 0 && tasks > 0, "only task id 0 is scheduled");
    kani::cover!(max_id > (1usize << 62), "a task id of 63 or 64 significant bits");
    let s = Schedule { seed: 5, steps };
    let enc = serialize_schedule(&s);
    // natively the whole encoder runs: the string must parse back to the same schedule
    #[cfg(not(kani))]
    {
        let d = deserialize_schedule(&enc);
        assert!(d.as_ref() == Some(&s), "C16: serialized schedule does not parse back");
    }
    std::mem::forget(enc);
    std::mem::forget(s);
}

hex_harness! {
    #[kani::stub(bitvec::vec::BitVec::repeat, crate::c16::bitvec_repeat_stub)]
    #[kani::unwind(6)]
    fn c16_encoder_width_1() { encoder_width::<1>(); }
}
hex_harness! {
    #[kani::stub(bitvec::vec::BitVec::repeat, crate::c16::bitvec_repeat_stub)]
    #[kani::unwind(6)]
    fn c16_encoder_width_3() { encoder_width::<3>(); }
}

// ---- malformed input, longer vectors: every byte vector of length N is either rejected or reaches step decoding
// (where the path ends, see `bitslice_from_slice_stub`) without panicking ------------------------------------------

fn malformed_bin_cut<const N: usize>() {
    unsafe { HEADER_OK = true }; // no claim about which headers get through (that is header_field's business)
    malformed_bin::<N>();
}

hex_harness! {
    #[kani::stub(bitvec::slice::BitSlice::from_slice, crate::c16::bitslice_from_slice_stub)]
    #[kani::unwind(12)]
    fn c16_header_total_bin4() { malformed_bin_cut::<4>(); }
}
hex_harness! {
    #[kani::stub(bitvec::slice::BitSlice::from_slice, crate::c16::bitslice_from_slice_stub)]
    #[kani::unwind(12)]
    fn c16_header_total_bin6() { malformed_bin_cut::<6>(); }
}
hex_harness! {
    #[kani::stub(bitvec::slice::BitSlice::from_slice, crate::c16::bitslice_from_slice_stub)]
    #[kani::unwind(14)]
    fn c16_header_total_bin12() { malformed_bin_cut::<12>(); }
}

hex_harness! {
    #[kani::unwind(12)]
    fn c16_nonhex_rejected() {
        // whatever the hex layer rejects is reported as None
        unsafe { HEX_FAIL = true };
        let r = deserialize_schedule("zz");
        assert!(r.is_none(), "C16: non-hexadecimal input not rejected");
    }
}

// ---- one fully concrete end-to-end run through the real hex layer (line wrapping, whitespace) ---------

crate::harness! {
    #[kani::unwind(130)]
    fn c16_concrete_end_to_end_wrapped() {
        let mut steps = Vec::with_capacity(40);
        let mut i = 0usize;
        while i < 40 {
            if i % 5 == 4 {
                steps.push(ScheduleStep::Random);
            } else {
                steps.push(ScheduleStep::Task(TaskId::from(i * 37 % 300)));
            }
            i += 1;
        }
        let s = Schedule { seed: 0x1234_5678_9abc_def0, steps };
        let enc = serialize_schedule(&s);
        assert!(enc.as_bytes().len() > 76);
        assert!(enc.as_bytes()[76] == b'\n', "C16: encoding is not wrapped at 76 columns");
        let dec = deserialize_schedule(&enc);
        assert!(dec == Some(s), "C16: wrapped encoding does not round-trip");
    }
}
