//! C18 — BatchSemaphore against a reference counting-semaphore model, at poll granularity.
//!
//! Symbolic: initial permits, fairness mode, and for each of STEPS steps the acting task, the op
//! kind, the slot and the permit count. The real `BatchSemaphore` / `Acquire` code runs on a real
//! `ExecutionState` with coroutine-less tasks; the acting task is chosen by the harness among the
//! tasks that are Runnable (a Sleeping/Blocked task cannot execute user code).
#[cfg(not(kani))]
use crate::shim as kani;
use crate::env::*;
use shuttle_engine::future::batch_semaphore::{Acquire, BatchSemaphore, Fairness, TryAcquireError};
use shuttle_engine::runtime::execution::ExecutionState;
use shuttle_engine::runtime::task::TaskState;
use shuttle_engine::{Config, ResourceSignature, ResourceType};
use std::cell::RefCell;
use std::future::Future;
use std::pin::Pin;
use std::rc::Rc;
use std::task::{Context, Poll};

const SIG: ResourceSignature = ResourceSignature::new_const(ResourceType::BatchSemaphore);

pub const MAXP: usize = 3;
pub const ANY: u8 = 255;
pub const NEW: u8 = 0;
pub const POLL: u8 = 1;
pub const DROP: u8 = 2;
pub const TRY: u8 = 3;
pub const REL: u8 = 4;
pub const CLOSE: u8 = 5;
pub const SLEEP: u8 = 6;

#[derive(Clone, Copy, PartialEq, Eq)]
enum SlotSt {
    Empty,
    /// created, never polled
    Fresh,
    /// polled, in the model's queue / waiter set
    Queued,
    /// (fair only) granted permits by a release, not yet observed by a poll
    Granted,
    /// poll returned Ready(Ok); permits held until released through the `Release` op
    Done,
}

/// Reference model: counter + FIFO of waiting slots.
struct Model<const S: usize> {
    fair: bool,
    avail: usize,
    closed: bool,
    st: [SlotSt; S],
    n: [usize; S],
    poller: [usize; S],
    /// FIFO of queued slots (fair and unfair; order only matters when fair)
    q: [usize; S],
    qlen: usize,
}

impl<const S: usize> Model<S> {
    fn q_remove(&mut self, slot: usize) -> usize {
        let mut i = 0;
        let mut pos = S;
        while i < S {
            if i < self.qlen && self.q[i] == slot && pos == S {
                pos = i;
            }
            i += 1;
        }
        assert!(pos < S);
        let mut j = pos;
        while j + 1 < S {
            if j + 1 < self.qlen {
                self.q[j] = self.q[j + 1];
            }
            j += 1;
        }
        self.qlen -= 1;
        pos
    }

    fn grant_from_front(&mut self) {
        // fair mode: hand permits to queue heads while they fit
        let mut k = 0;
        while k < S {
            if self.qlen > 0 {
                let h = self.q[0];
                if self.n[h] <= self.avail {
                    self.avail -= self.n[h];
                    self.st[h] = SlotSt::Granted;
                    self.q_remove(h);
                }
            }
            k += 1;
        }
    }

    fn release(&mut self, k: usize) {
        self.avail += k;
        if self.fair {
            self.grant_from_front();
        }
    }

    /// Can a poll of this pending slot complete right now?
    fn can_complete(&self, slot: usize) -> bool {
        match self.st[slot] {
            SlotSt::Granted => true,
            SlotSt::Queued => self.closed || (!self.fair && self.n[slot] <= self.avail),
            _ => false,
        }
    }
}

#[derive(Clone, Copy, PartialEq, Eq)]
enum PollRes {
    Pending,
    Ok,
    Closed,
}

pub const ANYT: usize = 99;

/// Harness context: the real semaphore, the acquire slots, the reference model and the executor
/// protocol bookkeeping.
pub struct Ctx<'a, const N: usize, const S: usize> {
    sem: &'a BatchSemaphore,
    slots: [Option<Pin<Box<Acquire<'a>>>>; S],
    m: Model<S>,
    needs_poll: [bool; N],
    parked: [bool; N],
    step_no: usize,
}

impl<'a, const N: usize, const S: usize> Ctx<'a, N, S> {
    fn new(sem: &'a BatchSemaphore, fair: bool, p0: usize) -> Self {
        Ctx {
            sem,
            slots: std::array::from_fn(|_| None),
            m: Model::<S> {
                fair,
                avail: p0,
                closed: false,
                st: [SlotSt::Empty; S],
                n: [0; S],
                poller: [0; S],
                q: [0; S],
                qlen: 0,
            },
            needs_poll: [false; N],
            parked: [false; N],
            step_no: 0,
        }
    }

    /// One step. `t` and `op` are literals in the instance's control skeleton (so that CBMC's
    /// constant propagation sees them) or ANYT / ANY for "symbolic".
    #[inline(never)]
    fn step(&mut self, t_in: usize, op_in: u8, slot_in: usize) {
        let sem = self.sem;
        let t: usize = if t_in == ANYT { kani::any() } else { t_in };
        kani::assume(t < N);
        // only a runnable task executes code
        kani::assume(is_runnable(t));
        set_current(t);
        if self.parked[t] {
            // a task that was asleep/blocked and is scheduled again polls before it may sleep again
            self.needs_poll[t] = true;
            self.parked[t] = false;
        }
        let op: u8 = if op_in == ANY { kani::any() } else { op_in };
        kani::assume(op < 7);
        let slot: usize = if slot_in == ANYT { kani::any() } else { slot_in };
        kani::assume(slot < S);
        let n: usize = kani::any();
        kani::assume(n >= 1 && n <= MAXP);
        let m = &mut self.m;

        match op {
            // new acquire
            0 => {
                kani::assume(m.st[slot] == SlotSt::Empty);
                self.slots[slot] = Some(Box::pin(sem.acquire(n)));
                m.st[slot] = SlotSt::Fresh;
                m.n[slot] = n;
                m.poller[slot] = t;
            }
            // poll
            1 => {
                kani::assume(matches!(m.st[slot], SlotSt::Fresh | SlotSt::Queued | SlotSt::Granted));
                let waker = ExecutionState::with(|s| s.current_mut().waker());
                let mut cx = Context::from_waker(&waker);
                let r = match self.slots[slot].as_mut().unwrap().as_mut().poll(&mut cx) {
                    Poll::Pending => PollRes::Pending,
                    Poll::Ready(Ok(())) => PollRes::Ok,
                    Poll::Ready(Err(_)) => PollRes::Closed,
                };
                std::mem::forget(waker);
                // model
                let want = m.n[slot];
                let expect = match m.st[slot] {
                    SlotSt::Granted => {
                        m.st[slot] = SlotSt::Done;
                        PollRes::Ok
                    }
                    SlotSt::Fresh => {
                        if m.closed {
                            m.st[slot] = SlotSt::Empty;
                            PollRes::Closed
                        } else if (m.qlen == 0 || !m.fair) && want <= m.avail {
                            m.avail -= want;
                            m.st[slot] = SlotSt::Done;
                            PollRes::Ok
                        } else {
                            m.st[slot] = SlotSt::Queued;
                            m.q[m.qlen] = slot;
                            m.qlen += 1;
                            PollRes::Pending
                        }
                    }
                    _ => {
                        // Queued
                        if m.closed {
                            m.st[slot] = SlotSt::Empty;
                            PollRes::Closed
                        } else if !m.fair && want <= m.avail {
                            m.avail -= want;
                            m.q_remove(slot);
                            m.st[slot] = SlotSt::Done;
                            PollRes::Ok
                        } else {
                            PollRes::Pending
                        }
                    }
                };
                m.poller[slot] = t;
                assert!(r == expect, "C18: poll result differs from the reference model");
                if r == PollRes::Closed {
                    // completed futures must not be polled again; drop it
                    let a = self.slots[slot].take();
                    drop(a);
                }
                kani::cover!(r == PollRes::Pending, "a poll returned Pending");
                kani::cover!(r == PollRes::Ok, "a poll returned Ok");
            }
            // drop an acquire (cancel, or give back a grant, or discard a completed one)
            2 => {
                kani::assume(m.st[slot] != SlotSt::Empty);
                let a = self.slots[slot].take();
                drop(a);
                match m.st[slot] {
                    SlotSt::Queued => {
                        if !m.closed {
                            let pos = m.q_remove(slot);
                            if m.fair && pos == 0 {
                                m.grant_from_front();
                            }
                        }
                    }
                    SlotSt::Granted => {
                        m.release(m.n[slot]);
                        kani::cover!(true, "a granted-but-unpolled acquire was dropped");
                    }
                    _ => {}
                }
                if m.st[slot] == SlotSt::Done {
                    // permits stay with the caller; hand them back right away to keep the
                    // model's bookkeeping simple
                    sem.release(m.n[slot]);
                    m.release(m.n[slot]);
                }
                m.st[slot] = SlotSt::Empty;
            }
            // try_acquire
            3 => {
                let r = sem.try_acquire(n);
                let expect = if m.closed {
                    Err(TryAcquireError::Closed)
                } else if (m.qlen == 0 || !m.fair) && n <= m.avail {
                    m.avail -= n;
                    Ok(())
                } else {
                    Err(TryAcquireError::NoPermits)
                };
                assert!(r == expect, "C18: try_acquire result differs from the reference model");
                kani::cover!(r == Err(TryAcquireError::NoPermits), "try_acquire failed for lack of permits");
                kani::cover!(r.is_ok(), "try_acquire succeeded");
            }
            // release (add permits)
            4 => {
                sem.release(n);
                m.release(n);
            }
            // close
            5 => {
                sem.close();
                if !m.closed {
                    m.closed = true;
                    // pending waiters fail on their next poll; the queue is emptied
                    m.qlen = 0;
                }
            }
            // the acting task goes to sleep the way block_on / the executor do after Pending
            _ => {
                // A well-behaved future polls the sub-futures it was woken for before returning
                // Pending again: not allowed to sleep while it owes a poll to a completable acquire.
                let mut owes = false;
                let mut sl = 0;
                while sl < S {
                    if m.can_complete(sl) && m.poller[sl] == t {
                        owes = true;
                    }
                    sl += 1;
                }
                kani::assume(!(self.needs_poll[t] && owes));
                let was_woken = ExecutionState::with(|s| s.current().verif_woken());
                ExecutionState::with(|s| s.current_mut().sleep_unless_woken());
                if was_woken {
                    self.needs_poll[t] = true;
                }
                kani::cover!(!is_runnable(t), "a task went to sleep");
            }
        }

        // ---- invariants after every step -------------------------------------------------
        assert!(
            sem.available_permits() == m.avail,
            "C18: available permits differ from the reference model"
        );
        let (qlen, closed) = sem.verif_queue();
        assert!(closed == m.closed, "C18: closed flag differs from the reference model");
        if !m.closed {
            assert!(qlen == m.qlen, "C18: queue length differs from the reference model");
        } else {
            assert!(qlen == 0, "C18: closed semaphore still has queued waiters");
        }
        // fair: queue order and head-cannot-fit invariant
        if m.fair && !m.closed {
            let mut i = 0;
            while i < S {
                if i < m.qlen {
                    let (wn, _wt, wq, wp) = sem.verif_waiter(i).unwrap();
                    assert!(wn == m.n[m.q[i]], "C18: fair queue order differs from arrival order");
                    assert!(wq && !wp, "C18: queued waiter flags inconsistent");
                }
                i += 1;
            }
            if m.qlen > 0 {
                assert!(m.n[m.q[0]] > m.avail, "C18: head waiter fits but was not granted");
            }
        }
        // no lost wake-up: a pending acquire that can complete has a runnable current poller
        let mut sl = 0;
        while sl < S {
            if m.can_complete(sl) {
                let p = m.poller[sl];
                assert!(
                    task_state(p) == TaskState::Runnable,
                    "C18: a completable acquire's current poller is not runnable"
                );
                kani::cover!(p != t, "another task's acquire became completable");
            }
            sl += 1;
        }
        let mut ti = 0;
        while ti < N {
            let mut comp = false;
            let mut sl = 0;
            while sl < S {
                if m.can_complete(sl) && m.poller[sl] == ti {
                    comp = true;
                }
                sl += 1;
            }
            if !comp {
                self.needs_poll[ti] = false;
            }
            if !is_runnable(ti) {
                self.parked[ti] = true;
            }
            ti += 1;
        }
        self.step_no += 1;
    }
}

/// `inst!(name, N, S, fair: Option<bool>, [(task, op, slot), ...])` — one harness instance. Task, op and
/// slot are literals (concrete control skeleton) or ANYT / ANY / ANYT (symbolic); permit counts,
/// initial permits and (with `None`) the fairness mode are always symbolic.
macro_rules! inst {
    ($name:ident, $n:literal, $s:literal, $fair:expr, [$(($t:expr, $op:expr, $slot:expr)),* $(,)?]) => {
        crate::harness! {
            #[kani::unwind(5)]
            fn $name() {
                let fair_opt: Option<bool> = $fair;
                let fair: bool = match fair_opt { Some(b) => b, None => kani::any() };
                let p0: usize = kani::any();
                kani::assume(p0 <= MAXP);
                let sched: Rc<RefCell<dyn shuttle_engine::scheduler::Scheduler>> = Rc::new(RefCell::new(NullSched));
                with_state($n, Config::new(), sched, || {
                    let sem = BatchSemaphore::new_with_signature(
                        p0,
                        if fair { Fairness::StrictlyFair } else { Fairness::Unfair },
                        SIG,
                    );
                    let mut cx = Ctx::<$n, $s>::new(&sem, fair, p0);
                    $( cx.step($t, $op, $slot); )*
                    std::mem::forget(cx);
                    std::mem::forget(sem);
                });
            }
        }
    };
}

// Instances whose control skeleton avoids `Acquire` futures: with a queued `Acquire` (Arc<Waiter>, Waker,
// VecDeque<Arc<Waiter>>) CBMC's propositional post-processing exhausts 16 GB even for the fully concrete
// skeleton [NEW, POLL, REL] (measured; DESIGN.md 2.1). Permit counts, initial permits and fairness are symbolic.
inst!(c18_try_try_rel, 2, 2, None, [(0, TRY, 0), (1, TRY, 0), (0, REL, 0)]);
inst!(c18_rel_try_try, 2, 2, None, [(1, REL, 0), (0, TRY, 0), (1, TRY, 0)]);
inst!(c18_try_close_try, 2, 2, None, [(0, TRY, 0), (1, CLOSE, 0), (0, TRY, 0)]);
inst!(c18_try_rel_sleep_try, 2, 2, None, [(0, TRY, 0), (0, REL, 0), (1, SLEEP, 0), (0, TRY, 0)]);
// kept for native validation and for the record (beyond the solver's memory):
inst!(c18_new_poll_rel, 2, 2, Some(true), [(0, NEW, 0), (0, POLL, 0), (1, REL, 0)]);
inst!(c18_new_poll_rel_any, 2, 2, Some(true), [(0, NEW, 0), (0, POLL, 0), (1, REL, 0), (ANYT, ANY, ANYT)]);
inst!(c18_any1, 2, 2, None, [(ANYT, ANY, ANYT)]);
