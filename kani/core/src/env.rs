//! Shared harness environment: the standard stub set, an oracle scheduler, execution-state set-up.
#[cfg(not(kani))]
use crate::shim as kani;
use shuttle_engine::runtime::execution::ExecutionState;
use shuttle_engine::scheduler::{Schedule, Scheduler, Task, TaskId};
use shuttle_engine::Config;
use std::cell::RefCell;
use std::rc::Rc;

/// Wraps a function into a Kani proof harness carrying the standard environment stubs
/// (DESIGN.md 2.3). Extra attributes (`#[kani::unwind(n)]`, more stubs) are passed through.
#[cfg(kani)]
#[macro_export]
macro_rules! harness {
    ($(#[$m:meta])* fn $name:ident() $body:block) => {
        #[cfg(kani)]
        #[kani::proof]
        #[kani::stub(std::hash::RandomState::new, $crate::stubs::random_state_new)]
        #[kani::stub(std::backtrace::Backtrace::force_capture, $crate::stubs::backtrace_force_capture)]
        #[kani::stub(shuttle_engine::backtrace_enabled, $crate::stubs::backtrace_enabled)]
        #[kani::stub(shuttle_engine::silence_warnings, $crate::stubs::silence_warnings)]
        #[kani::stub(shuttle_engine::seed_from_env, $crate::stubs::seed_from_env)]
        #[kani::stub(alloc::fmt::format, $crate::stubs::fmt_format)]
        #[kani::stub(std::thread::panicking, $crate::stubs::thread_panicking)]
        #[kani::stub(core::fmt::write, $crate::stubs::fmt_write_noop)]
        #[kani::stub(std::io::_eprint, $crate::stubs::io_print_noop)]
        #[kani::stub(std::io::_print, $crate::stubs::io_print_noop)]
        #[kani::stub(std::sync::Mutex::lock, $crate::stubs::std_mutex_lock)]
        #[kani::stub(std::task::Waker::wake, $crate::stubs::waker_wake)]
        #[kani::stub(std::task::Waker::wake_by_ref, $crate::stubs::waker_wake_by_ref)]
        #[kani::stub(<std::task::Waker as std::clone::Clone>::clone, $crate::stubs::waker_clone)]
        #[kani::stub(<std::task::Waker as std::ops::Drop>::drop, $crate::stubs::waker_drop)]
        $(#[$m])*
        pub fn $name() $body
    };
}


/// Native build: the harness is an ordinary function (attributes are dropped).
#[cfg(not(kani))]
#[macro_export]
macro_rules! harness {
    ($(#[$m:meta])* fn $name:ident() $body:block) => {
        pub fn $name() $body
    };
}

/// Repeat a block a literal number of times (straight-line code). Harness-side loops are written with
/// this so that `#[kani::unwind(n)]` can be sized for the loops of the code under verification only.
#[macro_export]
macro_rules! unroll {
    (1, $b:block) => { $b };
    (2, $b:block) => { $b $b };
    (3, $b:block) => { $b $b $b };
    (4, $b:block) => { $b $b $b $b };
    (5, $b:block) => { $b $b $b $b $b };
    (6, $b:block) => { $b $b $b $b $b $b };
    (7, $b:block) => { $b $b $b $b $b $b $b };
    (8, $b:block) => { $b $b $b $b $b $b $b $b };
    (9, $b:block) => { $b $b $b $b $b $b $b $b $b };
    (10, $b:block) => { $b $b $b $b $b $b $b $b $b $b };
    (11, $b:block) => { $b $b $b $b $b $b $b $b $b $b $b };
    (12, $b:block) => { $b $b $b $b $b $b $b $b $b $b $b $b };
    (13, $b:block) => { $b $b $b $b $b $b $b $b $b $b $b $b $b };
    (14, $b:block) => { $b $b $b $b $b $b $b $b $b $b $b $b $b $b };
    (15, $b:block) => { $b $b $b $b $b $b $b $b $b $b $b $b $b $b $b };
    (16, $b:block) => { $b $b $b $b $b $b $b $b $b $b $b $b $b $b $b $b };
    (17, $b:block) => { $b $b $b $b $b $b $b $b $b $b $b $b $b $b $b $b $b };
}

/// A scheduler that is never consulted (harnesses that pick the acting task themselves).
pub struct NullSched;
impl Scheduler for NullSched {
    fn new_execution(&mut self) -> Option<Schedule> {
        None
    }
    fn next_task(&mut self, r: &[&Task], _c: Option<TaskId>, _y: bool) -> Option<TaskId> {
        Some(r[0].id())
    }
    fn next_u64(&mut self) -> u64 {
        0
    }
}

pub fn switches() -> usize {
    shuttle_engine::verif_support::recorder().switches
}

pub fn tid(i: usize) -> TaskId {
    TaskId::from(i)
}

/// Create an execution state with `n` coroutine-less tasks (task 0 is created as the main task,
/// the others as its children through the real clock inheritance) and run `f` inside it with
/// task 0 current. The state is leaked afterwards (no drop glue in the formula).
pub fn with_state<R>(n: usize, config: Config, sched: Rc<RefCell<dyn Scheduler>>, f: impl FnOnce() -> R) -> R {
    shuttle_engine::verif_support::set_switch_interception(true);
    let state = RefCell::new(ExecutionState::verif_new(config, sched));
    let r = ExecutionState::verif_enter(&state, || {
        ExecutionState::with(|s| {
            let t0 = s.verif_add_stub_task();
            s.verif_set_current_task(t0);
            let mut i = 1;
            while i < n {
                s.verif_add_stub_task();
                i += 1;
            }
        });
        f()
    });
    std::mem::forget(state);
    r
}

pub fn set_current(t: usize) {
    ExecutionState::with(|s| s.verif_set_current_task(tid(t)));
}

pub fn task_state(t: usize) -> shuttle_engine::runtime::task::TaskState {
    ExecutionState::with(|s| s.get(tid(t)).verif_state())
}

pub fn is_runnable(t: usize) -> bool {
    ExecutionState::with(|s| s.get(tid(t)).runnable())
}
