//! Native runner for the harnesses: `native <harness> random <n> <seed>` or `native <harness> replay <file.json>`.
//! Exit 0: no assertion failed; 1: a harness assertion / real-code panic fired (printed); 3: unknown harness.
#[cfg(kani)]
fn main() {}

#[cfg(not(kani))]
fn main() {
    real::main()
}

#[cfg(not(kani))]
mod real {
use std::panic;
use vk_core::shim;

fn run_once(f: fn(), seed: u64, recorded: Option<Vec<Vec<u8>>>) -> Result<bool, String> {
    shim::reset(seed, recorded);
    let r = panic::catch_unwind(f);
    match r {
        Ok(()) => Ok(true),
        Err(p) => {
            if p.downcast_ref::<shim::AssumeFailed>().is_some() {
                Ok(false) // discarded by an assumption
            } else if let Some(s) = p.downcast_ref::<String>() {
                Err(s.clone())
            } else if let Some(s) = p.downcast_ref::<&str>() {
                Err(s.to_string())
            } else {
                Err("panic with non-string payload".into())
            }
        }
    }
}

pub fn main() {
    let a: Vec<String> = std::env::args().collect();
    let name = &a[1];
    let f = match vk_core::native_table::lookup(name) {
        Some(f) => f,
        None => {
            eprintln!("unknown harness {name}");
            std::process::exit(3);
        }
    };
    // quiet panics from assumptions
    panic::set_hook(Box::new(|info| {
        if info.payload().downcast_ref::<shim::AssumeFailed>().is_none() {
            eprintln!("native: {info}");
        }
    }));
    match a[2].as_str() {
        "random" => {
            let n: u64 = a[3].parse().unwrap();
            let seed0: u64 = a.get(4).map(|s| s.parse().unwrap()).unwrap_or(1);
            let mut completed = 0u64;
            let mut covers = std::collections::BTreeSet::new();
            for i in 0..n {
                match run_once(f, seed0.wrapping_add(i), None) {
                    Ok(true) => {
                        completed += 1;
                        shim::SRC.with(|s| {
                            for c in &s.borrow().covers {
                                covers.insert(*c);
                            }
                        });
                    }
                    Ok(false) => {}
                    Err(m) => {
                        println!("NATIVE-FAIL harness={name} seed={} msg={m}", seed0.wrapping_add(i));
                        std::process::exit(1);
                    }
                }
            }
            println!("NATIVE-OK harness={name} runs={n} completed={completed} covers={covers:?}");
        }
        "replay" => {
            let txt = std::fs::read_to_string(&a[3]).unwrap();
            // file: one line per any() call, comma-separated decimal bytes
            let rec: Vec<Vec<u8>> = txt
                .lines()
                .filter(|l| !l.trim().is_empty())
                .map(|l| l.split(',').filter(|x| !x.trim().is_empty()).map(|x| x.trim().parse().unwrap()).collect())
                .collect();
            match run_once(f, 0, Some(rec)) {
                Ok(true) => println!("NATIVE-REPLAY-PASS harness={name}"),
                Ok(false) => println!("NATIVE-REPLAY-DISCARDED harness={name} (an assumption failed)"),
                Err(m) => {
                    println!("NATIVE-REPLAY-FAIL harness={name} msg={m}");
                    std::process::exit(1);
                }
            }
        }
        _ => std::process::exit(3),
    }
}
}
