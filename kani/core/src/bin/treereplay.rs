//! Native replay of C09 counterexamples of the MIR symbolic executor: drives the real `DfsScheduler` over a choice
//! tree exactly as the runtime would and checks the property (every schedule once, then stop; bound honoured; same
//! data stream in every execution).
//!   treereplay file <tree-file>        lines: `bound none|<k>` and `node <path|-> <ids|->` (path = child indices `0.1`)
//!   treereplay random <n> <seed>       n pseudo-random trees (depth <= 4, <= 3 tasks per decision, random bounds)
//! Prints `NATIVE-FAIL <message>` (and `TREE <...>` in random mode) or `NATIVE-OK`.
#[cfg(kani)]
fn main() {}

#[cfg(not(kani))]
fn main() {
    real::main()
}

#[cfg(not(kani))]
mod real {
    use shuttle_engine::runtime::task::clock::VectorClock;
    use shuttle_engine::scheduler::{Scheduler, Task, TaskId};
    use shuttle_schedulers::DfsScheduler;
    use std::collections::{BTreeMap, BTreeSet};
    use std::panic;

    type Tree = BTreeMap<Vec<usize>, Vec<usize>>;

    fn mk_task(id: usize) -> Task {
        Task::verif_stub(TaskId::from(id), VectorClock::new(), None)
    }

    fn leaves(t: &Tree) -> BTreeSet<Vec<usize>> {
        t.iter().filter(|(_, ids)| ids.is_empty()).map(|(p, _)| p.clone()).collect()
    }

    fn run(tree: &Tree, bound: Option<usize>) -> Result<(), String> {
        let all = leaves(tree);
        let mut tasks: BTreeMap<usize, Task> = BTreeMap::new();
        for ids in tree.values() {
            for &i in ids {
                tasks.entry(i).or_insert_with(|| mk_task(i));
            }
        }
        let mut sched = DfsScheduler::new(bound, true);
        let mut visited: Vec<Vec<usize>> = vec![];
        let mut first: Option<(u64, u64, u64)> = None;
        loop {
            let s = match sched.new_execution() {
                None => break,
                Some(s) => s,
            };
            if visited.len() > all.len() {
                return Err("C09: DFS does not stop after the tree is exhausted".into());
            }
            let d0 = sched.next_u64();
            let mut path = vec![];
            let mut cur = None;
            while !tree[&path].is_empty() {
                let ids = &tree[&path];
                let offered: Vec<&Task> = ids.iter().map(|i| &tasks[i]).collect();
                let t = sched
                    .next_task(&offered, cur, false)
                    .ok_or("C09: DFS returned no task although tasks were offered")?;
                let idx = ids
                    .iter()
                    .position(|i| TaskId::from(*i) == t)
                    .ok_or("C09: DFS chose a task that was not offered")?;
                path.push(idx);
                cur = Some(t);
            }
            let d1 = sched.next_u64();
            match first {
                None => first = Some((s.seed, d0, d1)),
                Some(f) => {
                    if f != (s.seed, d0, d1) {
                        return Err("C09: the data seed / data stream of a DFS execution differs from the first execution's".into());
                    }
                }
            }
            if visited.contains(&path) {
                return Err(format!("C09: DFS ran the same schedule twice: {:?}", path));
            }
            visited.push(path);
        }
        match bound {
            None => {
                let v: BTreeSet<_> = visited.iter().cloned().collect();
                if v != all {
                    return Err(format!("C09: DFS skipped a schedule: visited {} of {}", v.len(), all.len()));
                }
            }
            Some(k) => {
                if visited.len() != k.min(all.len()) {
                    return Err(format!(
                        "C09: with an iteration bound DFS must run exactly min(bound, #schedules) distinct schedules: ran {}, bound {}, schedules {}",
                        visited.len(), k, all.len()
                    ));
                }
            }
        }
        std::mem::forget(tasks);
        Ok(())
    }

    fn guarded(tree: &Tree, bound: Option<usize>) -> Result<(), String> {
        let t = tree.clone();
        match panic::catch_unwind(move || run(&t, bound)) {
            Ok(r) => r,
            Err(p) => {
                let m = p.downcast_ref::<String>().cloned().or_else(|| p.downcast_ref::<&str>().map(|s| s.to_string())).unwrap_or_default();
                Err(format!("C09: DFS scheduler code panics on a valid choice tree: {}", m))
            }
        }
    }

    fn show(tree: &Tree, bound: Option<usize>) -> String {
        let mut s = format!("bound={:?}", bound);
        for (p, ids) in tree {
            s += &format!(" {:?}->{:?}", p, ids);
        }
        s
    }

    struct Rng(u64);
    impl Rng {
        fn next(&mut self) -> u64 {
            self.0 ^= self.0 << 13;
            self.0 ^= self.0 >> 7;
            self.0 ^= self.0 << 17;
            self.0
        }
    }

    fn gen(r: &mut Rng, t: &mut Tree, path: Vec<usize>, depth: usize, maxd: usize) {
        let n = if depth == maxd { 0 } else { (r.next() % 4) as usize };
        let mut ids = vec![];
        let mut next = (r.next() % 3) as usize;
        for _ in 0..n {
            ids.push(next);
            next += 1 + (r.next() % 2) as usize;
        }
        t.insert(path.clone(), ids);
        for i in 0..n {
            let mut p = path.clone();
            p.push(i);
            gen(r, t, p, depth + 1, maxd);
        }
    }

    pub fn main() {
        panic::set_hook(Box::new(|_| {}));
        let a: Vec<String> = std::env::args().collect();
        if a[1] == "file" {
            let txt = std::fs::read_to_string(&a[2]).expect("tree file");
            let mut tree = Tree::new();
            let mut bound = None;
            for l in txt.lines() {
                let w: Vec<&str> = l.split_whitespace().collect();
                if w.is_empty() {
                    continue;
                }
                if w[0] == "bound" {
                    bound = if w[1] == "none" { None } else { Some(w[1].parse::<usize>().unwrap()) };
                } else if w[0] == "node" {
                    let p: Vec<usize> = if w[1] == "-" { vec![] } else { w[1].split('.').map(|x| x.parse().unwrap()).collect() };
                    let ids: Vec<usize> = if w[2] == "-" { vec![] } else { w[2].split(',').map(|x| x.parse().unwrap()).collect() };
                    tree.insert(p, ids);
                }
            }
            match guarded(&tree, bound) {
                Ok(()) => println!("NATIVE-OK"),
                Err(m) => {
                    println!("NATIVE-FAIL {}", m);
                    std::process::exit(1)
                }
            }
        } else {
            let n: u64 = a[2].parse().unwrap();
            let mut r = Rng(a[3].parse::<u64>().unwrap() | 0x9E3779B97F4A7C15);
            for _ in 0..n {
                let mut tree = Tree::new();
                let maxd = 1 + (r.next() % 4) as usize;
                gen(&mut r, &mut tree, vec![], 0, maxd);
                if tree.len() > 200 {
                    continue;
                }
                let bound = if r.next() % 2 == 0 { None } else { Some((r.next() % 12) as usize) };
                if let Err(m) = guarded(&tree, bound) {
                    println!("NATIVE-FAIL {}", m);
                    println!("TREE {}", show(&tree, bound));
                    std::process::exit(1);
                }
            }
            println!("NATIVE-OK");
        }
    }
}
