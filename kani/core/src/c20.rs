//! C20 — deterministic collections: every constructor routes through the fixed hasher keys.
//! (`RandomState::new` is stubbed to *different* fixed keys in every harness, so a constructor that
//! falls back to it produces a different hash of the probe and is caught.)
#[cfg(not(kani))]
use crate::shim as kani;
use deterministic_collections::{HashMap, HashSet};
use std::collections::HashMap as StdHashMap;
use std::collections::HashSet as StdHashSet;
use std::hash::{BuildHasher, RandomState};

fn reference(probe: u64) -> u64 {
    // the documented fixed keys (0, 0)
    let rs: RandomState = unsafe { std::mem::transmute((0u64, 0u64)) };
    rs.hash_one(probe)
}

crate::harness! {
    #[kani::unwind(4)]
    fn c20_map_constructors_fixed_hasher() {
        let probe: u64 = kani::any();
        let want = reference(probe);
        let a: HashMap<u64, u8> = HashMap::new();
        assert!(a.hasher().hash_one(probe) == want, "C20: HashMap::new does not use the fixed hasher");
        let b: HashMap<u64, u8> = HashMap::with_capacity(0);
        assert!(b.hasher().hash_one(probe) == want, "C20: HashMap::with_capacity does not use the fixed hasher");
        let c: HashMap<u64, u8> = Default::default();
        assert!(c.hasher().hash_one(probe) == want, "C20: HashMap::default does not use the fixed hasher");
        let d: HashMap<u64, u8> = HashMap::from([]);
        assert!(d.hasher().hash_one(probe) == want, "C20: HashMap::from(array) does not use the fixed hasher");
        let e: HashMap<u64, u8> = std::iter::empty().collect();
        assert!(e.hasher().hash_one(probe) == want, "C20: HashMap::from_iter does not use the fixed hasher");
        let std_map: StdHashMap<u64, u8, RandomState> = StdHashMap::with_hasher(RandomState::new());
        let f: HashMap<u64, u8> = HashMap::from(std_map);
        assert!(f.hasher().hash_one(probe) == want, "C20: HashMap::from(std map) keeps the foreign hasher");
        let g = a.clone();
        assert!(g.hasher().hash_one(probe) == want, "C20: HashMap::clone does not keep the fixed hasher");
        kani::cover!(probe == 0, "probe 0");
        std::mem::forget((a, b, c, d, e, f, g));
    }
}

crate::harness! {
    #[kani::unwind(4)]
    fn c20_set_constructors_fixed_hasher() {
        let probe: u64 = kani::any();
        let want = reference(probe);
        let a: HashSet<u64> = HashSet::new();
        assert!(a.hasher().hash_one(probe) == want, "C20: HashSet::new does not use the fixed hasher");
        let b: HashSet<u64> = HashSet::with_capacity(0);
        assert!(b.hasher().hash_one(probe) == want, "C20: HashSet::with_capacity does not use the fixed hasher");
        let c: HashSet<u64> = Default::default();
        assert!(c.hasher().hash_one(probe) == want, "C20: HashSet::default does not use the fixed hasher");
        let e: HashSet<u64> = std::iter::empty().collect();
        assert!(e.hasher().hash_one(probe) == want, "C20: HashSet::from_iter does not use the fixed hasher");
        let std_set: StdHashSet<u64, RandomState> = StdHashSet::with_hasher(RandomState::new());
        let f: HashSet<u64> = HashSet::from(std_set);
        assert!(f.hasher().hash_one(probe) == want, "C20: HashSet::from(std set) keeps the foreign hasher");
        // results of the set operators are new sets
        let u = &a | &b;
        assert!(u.hasher().hash_one(probe) == want, "C20: set union does not use the fixed hasher");
        let n = &a & &b;
        assert!(n.hasher().hash_one(probe) == want, "C20: set intersection does not use the fixed hasher");
        let x = &a ^ &b;
        assert!(x.hasher().hash_one(probe) == want, "C20: set symmetric difference does not use the fixed hasher");
        let m = &a - &b;
        assert!(m.hasher().hash_one(probe) == want, "C20: set difference does not use the fixed hasher");
        kani::cover!(probe == u64::MAX, "probe max");
        std::mem::forget((a, b, c, e, f, u, n, x, m));
    }
}
