//! C20 — deterministic collections: every constructor routes through the fixed hasher keys.
//! (`RandomState::new` is stubbed to *different* fixed keys in every harness, so a constructor that
//! falls back to it produces a different hash of the probe and is caught.)
#[cfg(not(kani))]
use crate::shim as kani;
use deterministic_collections::{HashMap, HashSet};
use std::collections::HashMap as StdHashMap;
use std::collections::HashSet as StdHashSet;
use std::hash::{BuildHasher, RandomState};

fn reference(probe: u64) -> u64 {
    // the documented fixed keys (0, 0)
    let rs: RandomState = unsafe { std::mem::transmute((0u64, 0u64)) };
    rs.hash_one(probe)
}

fn map_constructors(probe: u64) {
        let want = reference(probe);
        let a: HashMap<u64, u8> = HashMap::new();
        assert!(a.hasher().hash_one(probe) == want, "C20: HashMap::new does not use the fixed hasher");
        let b: HashMap<u64, u8> = HashMap::with_capacity(0);
        assert!(b.hasher().hash_one(probe) == want, "C20: HashMap::with_capacity does not use the fixed hasher");
        let c: HashMap<u64, u8> = Default::default();
        assert!(c.hasher().hash_one(probe) == want, "C20: HashMap::default does not use the fixed hasher");
        let d: HashMap<u64, u8> = HashMap::from([]);
        assert!(d.hasher().hash_one(probe) == want, "C20: HashMap::from(array) does not use the fixed hasher");
        let e: HashMap<u64, u8> = std::iter::empty().collect();
        assert!(e.hasher().hash_one(probe) == want, "C20: HashMap::from_iter does not use the fixed hasher");
        let std_map: StdHashMap<u64, u8, RandomState> = StdHashMap::with_hasher(RandomState::new());
        let f: HashMap<u64, u8> = HashMap::from(std_map);
        assert!(f.hasher().hash_one(probe) == want, "C20: HashMap::from(std map) keeps the foreign hasher");
        let g = a.clone();
        assert!(g.hasher().hash_one(probe) == want, "C20: HashMap::clone does not keep the fixed hasher");
        kani::cover!(probe == 0, "probe 0");
        std::mem::forget((a, b, c, d, e, f, g));
}

crate::harness! {
    #[kani::unwind(4)]
    fn c20_map_constructors_fixed_hasher() {
        map_constructors(kani::any());
    }
}

// Concrete probes: a different hasher is exposed by constant folding alone, so a regression is reported in
// seconds (finding a distinguishing probe symbolically means inverting SipHash, which can take the solver
// longer than the time cap; the symbolic-probe harnesses above are what covers *all* probes on a good tree).
crate::harness! {
    #[kani::unwind(4)]
    fn c20_map_constructors_concrete_probes() {
        map_constructors(0);
        map_constructors(0x9e37_79b9_7f4a_7c15);
    }
}

fn set_constructors(probe: u64) {
        let want = reference(probe);
        let a: HashSet<u64> = HashSet::new();
        assert!(a.hasher().hash_one(probe) == want, "C20: HashSet::new does not use the fixed hasher");
        let b: HashSet<u64> = HashSet::with_capacity(0);
        assert!(b.hasher().hash_one(probe) == want, "C20: HashSet::with_capacity does not use the fixed hasher");
        let c: HashSet<u64> = Default::default();
        assert!(c.hasher().hash_one(probe) == want, "C20: HashSet::default does not use the fixed hasher");
        let e: HashSet<u64> = std::iter::empty().collect();
        assert!(e.hasher().hash_one(probe) == want, "C20: HashSet::from_iter does not use the fixed hasher");
        let std_set: StdHashSet<u64, RandomState> = StdHashSet::with_hasher(RandomState::new());
        let f: HashSet<u64> = HashSet::from(std_set);
        assert!(f.hasher().hash_one(probe) == want, "C20: HashSet::from(std set) keeps the foreign hasher");
        // results of the set operators are new sets
        let u = &a | &b;
        assert!(u.hasher().hash_one(probe) == want, "C20: set union does not use the fixed hasher");
        let n = &a & &b;
        assert!(n.hasher().hash_one(probe) == want, "C20: set intersection does not use the fixed hasher");
        let x = &a ^ &b;
        assert!(x.hasher().hash_one(probe) == want, "C20: set symmetric difference does not use the fixed hasher");
        let m = &a - &b;
        assert!(m.hasher().hash_one(probe) == want, "C20: set difference does not use the fixed hasher");
        kani::cover!(probe == u64::MAX, "probe max");
        std::mem::forget((a, b, c, e, f, u, n, x, m));
}

crate::harness! {
    #[kani::unwind(4)]
    fn c20_set_constructors_fixed_hasher() {
        set_constructors(kani::any());
    }
}

crate::harness! {
    #[kani::unwind(4)]
    fn c20_set_constructors_concrete_probes() {
        set_constructors(u64::MAX);
        set_constructors(0x0123_4567_89ab_cdef);
    }
}


/// Minimal self-describing deserializer front: hands a newtype struct its inner deserializer, as
/// serde_json / bincode do (the value deserializers of `serde::de::value` do not implement that hint).
struct Newtype<D>(D);
impl<'de, D: serde::Deserializer<'de>> serde::Deserializer<'de> for Newtype<D> {
    type Error = D::Error;
    fn deserialize_any<V: serde::de::Visitor<'de>>(self, v: V) -> Result<V::Value, Self::Error> {
        self.0.deserialize_any(v)
    }
    fn deserialize_newtype_struct<V: serde::de::Visitor<'de>>(self, _name: &'static str, v: V) -> Result<V::Value, Self::Error> {
        v.visit_newtype_struct(self.0)
    }
    serde::forward_to_deserialize_any! {
        bool i8 i16 i32 i64 i128 u8 u16 u32 u64 u128 f32 f64 char str string bytes byte_buf option unit
        unit_struct seq tuple tuple_struct map struct enum identifier ignored_any
    }
}

crate::harness! {
    #[kani::unwind(4)]
    fn c20_deserialized_collections_fixed_hasher() {
        use serde::de::value::{Error as DeError, MapDeserializer, SeqDeserializer};
        use serde::Deserialize;
        let probe: u64 = 0x0f0f_1234_5678_9abc;
        let want = reference(probe);
        let m: HashMap<u64, u8> =
            HashMap::deserialize(Newtype(MapDeserializer::<_, DeError>::new(std::iter::empty::<(u64, u8)>()))).unwrap();
        assert!(m.hasher().hash_one(probe) == want, "C20: a deserialized HashMap does not use the fixed hasher");
        let s: HashSet<u64> = HashSet::deserialize(Newtype(SeqDeserializer::<_, DeError>::new(std::iter::empty::<u64>()))).unwrap();
        assert!(s.hasher().hash_one(probe) == want, "C20: a deserialized HashSet does not use the fixed hasher");
        std::mem::forget((m, s));
    }
}
