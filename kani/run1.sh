#!/bin/bash
# usage: run1.sh <workdir> <harness> [timeout_s] [mem_kb]   (dev helper)
W=$1; H=$2; T=${3:-900}; M=${4:-20000000}
cd $W/h && export CARGO_NET_OFFLINE=true RUSTFLAGS="--cap-lints=warn"
( ulimit -v $M; /usr/bin/time -v timeout $T cargo kani -Z unstable-options --ignore-global-asm -Z stubbing --harness $H --target-dir ${TD:-$W/target-$H} --output-format terse > $W/$H.log 2>&1; echo EXIT $? >> $W/$H.log )
grep -n "VERIFICATION\|Verification Time\|^SUMMARY\|of .* failed\|Failed Checks\|cover.*SATISFIED\|UNSATISFIABLE\|UNREACHABLE\|Maximum resident\|Elapsed\|EXIT\|error\[" $W/$H.log | tail -40
